"""Smoke test of spec/LoopTrace.tla: a hand-written program with known moments."""
import sys, os
from fractions import Fraction as F
sys.path.insert(0, os.path.dirname(os.path.dirname(os.path.abspath(__file__))))
from harness import tlc

def V(v, e=1): return ((v, e),)
ONE = ()
# x = 0; y = 1; while true: x = x + 1 {1/2} x - 1 ; if x > 0: y = 2*y else: y = 0 end; b = Bernoulli(1/3)
P = {"vars": ["x", "y", "b"], "s0": {},
     "init": [("assign", "x", [(1, [(0, ONE)])], ("true",), "x"),
              ("assign", "y", [(1, [(1, ONE)])], ("true",), "y")],
     "guard": ("true",),
     "body": [("assign", "x", [(F(1, 2), [(1, V("x")), (1, ONE)]), (F(1, 2), [(1, V("x")), (-1, ONE)])], ("true",), "x"),
              ("if", [("atom", [(1, V("x"))], ">", [(0, ONE)])],
                     [[("assign", "y", [(1, [(2, V("y"))])], ("true",), "y")]],
                     [("assign", "y", [(1, [(0, ONE)])], ("true",), "y")]),
              ("draw", "b", ("bernoulli", F(1, 3)), ("true",), "b")]}
# E(x) = 0 ; E(x^2) = n ; E(b) = 1/3 for n>=1
steps = []
for n in range(0, 6):
    cl = [{"t": "mom", "pi": 1, "poly": [(1, V("x"))], "val": 0},
          {"t": "mom", "pi": 1, "poly": [(1, V("x", 2))], "val": n},
          {"t": "mom", "pi": 1, "poly": [(1, V("b"))], "val": F(1, 3) if n else 0},
          {"t": "mom", "pi": 1, "poly": [(1, V("x", 2))], "val": n + 1, "tag": "wrong-on-purpose"},
          {"t": "central", "pi": 1, "poly": [(1, V("x"))], "k": 2, "val": n},
          {"t": "cumulant", "pi": 1, "poly": [(1, V("x"))], "k": 2, "val": n},
          {"t": "cumulant", "pi": 1, "poly": [(1, V("x"))], "k": 4, "val": -2 * n},
          {"t": "supp", "pi": 1, "v": "b", "vals": [0, 1], "start": 0, "exempt": True},
          {"t": "supp", "pi": 1, "v": "x", "vals": [0, 1, -1, 2, -2], "start": 0, "exempt": True},
          {"t": "rec", "pi": 1, "lhs": [(1, V("x", 2))], "rhs": [(1, [(1, V("x", 2))])], "k": 1},
          {"t": "recpt", "pi": 1, "lhs": [(1, V("x", 2))], "rhsp": [(1, V("x", 2)), (1, ONE)]},
          {"t": "equiv", "a": 1, "b": 1, "va": ["x", "y"], "vb": ["x", "y"]},
          ]
    steps.append(cl)
tr = {"id": "smoke1", "vars": P["vars"], "progs": [P], "N": 5, "steps": steps}
import json, time
t = time.time()
v, stats, errs = tlc.run_batches([tr], workers=2)
expected = {(f["n"], f["i"]) for f in v["smoke1"]["fails"]}
want = {(n, 4) for n in range(6)} | {(3, 9), (4, 9), (5, 9)}
assert expected == want, (expected, want)
print(json.dumps(v, indent=None)[:3000]); print(stats, errs, time.time() - t)
