CONSTANTS Base = 10  D = 6  Hi = 110
INIT Init
NEXT Next
INVARIANT IntOK
INVARIANT DivOK
INVARIANT RatOK
INVARIANT DualOK
INVARIANT DivSmallOK
CHECK_DEADLOCK FALSE
