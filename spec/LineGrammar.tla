---------------------------- MODULE LineGrammar ----------------------------
(***************************************************************************)
(* The block structure of inputparser/syntax.lark at the level of LINES.   *)
(*                                                                         *)
(*   program : [typedefs] initial "while" guard ":" loop_body "end"        *)
(*   typedefs: "types" NL* typedef (NL typedef)* NL* "end" NL*             *)
(*   statems : statem (NL+ statem)* NL+          (at least one statement)  *)
(*   if      : "if" c ":" NL+ statems ("elif" c ":" NL+ statems)*          *)
(*             ["else" ":" NL+ statems] "end"                              *)
(*   NL is one token for any run of newlines; a comment line splits it.    *)
(*                                                                         *)
(* A text is a sequence of line categories:                                *)
(*   A assignment   I "if c:"   F "elif c:"   L "else:"   E "end"          *)
(*   W "while c:"   T "types"   D typedef     B blank     C comment only   *)
(* The machine consumes one line per step (phase + stack of open if-       *)
(* statements) and is deterministic, so TLC enumerates EVERY sequence up   *)
(* to MaxLen (rejected prefixes are not extended) with the verdict "well    *)
(* formed" / "can still become well formed" / "rejected".  The harness turns *)
(* each sequence into text (one fixed representative line per category)    *)
(* and Polar's parser must accept exactly the well-formed ones.            *)
(***************************************************************************)
EXTENDS Integers, Sequences, TLC, Json

CONSTANT MaxLen
Cat == {"A", "I", "F", "L", "E", "W", "T", "D", "B", "C"}

VARIABLES seq, phase, stack, nls
\* phase: start, types0 (after "types"), types (>= 1 typedef), init, loop0 (after "while"), loop, done, dead
\* stack: open if-statements, each "if0"/"if" (current branch empty / not) or "else0"/"else"
\* nls: in a types block, the number of NL tokens since the last typedef (a comment line splits the run of newlines)
vars == <<seq, phase, stack, nls>>

Init == seq = <<>> /\ phase = "start" /\ stack = <<>> /\ nls = 0

Top == stack[Len(stack)]
SetTop(x) == [stack EXCEPT ![Len(stack)] = x]
Pop == SubSeq(stack, 1, Len(stack) - 1)
NonEmpty(f) == IF f = "if0" THEN "if" ELSE IF f = "else0" THEN "else" ELSE f

\* a statement (assignment or a completed if-statement) has been read in the enclosing context
Dead == /\ phase' = "dead" /\ stack' = <<>> /\ nls' = 0

InBlock(c) ==
    CASE c = "A" -> /\ stack' = SetTop(NonEmpty(Top)) /\ UNCHANGED <<phase, nls>>
      [] c = "I" -> /\ stack' = Append(SetTop(NonEmpty(Top)), "if0") /\ UNCHANGED <<phase, nls>>
      [] c = "F" -> IF Top = "if" THEN stack' = SetTop("if0") /\ UNCHANGED <<phase, nls>> ELSE Dead
      [] c = "L" -> IF Top = "if" THEN stack' = SetTop("else0") /\ UNCHANGED <<phase, nls>> ELSE Dead
      [] c = "E" -> IF Top \in {"if", "else"} THEN stack' = Pop /\ UNCHANGED <<phase, nls>> ELSE Dead
      [] c \in {"B", "C"} -> UNCHANGED <<phase, stack, nls>>
      [] OTHER -> Dead

TopLevel(c) ==
    CASE phase = "start" ->
            CASE c = "T" -> phase' = "types0" /\ UNCHANGED <<stack, nls>>
              [] c = "A" -> phase' = "init" /\ UNCHANGED <<stack, nls>>
              [] c = "I" -> phase' = "init" /\ stack' = <<"if0">> /\ UNCHANGED nls
              [] c = "W" -> phase' = "loop0" /\ UNCHANGED <<stack, nls>>
              [] c \in {"B", "C"} -> UNCHANGED <<phase, stack, nls>>
              [] OTHER -> Dead
      [] phase = "types0" ->
            CASE c = "D" -> phase' = "types" /\ nls' = 0 /\ UNCHANGED stack
              [] c \in {"B", "C"} -> UNCHANGED <<phase, stack, nls>>
              [] OTHER -> Dead
      [] phase = "types" ->
            \* typedef (NL typedef)*: exactly one NL token between two typedefs; blank lines extend the token, a comment
            \* line ends it and starts another one
            CASE c = "D" -> IF nls = 0 THEN UNCHANGED <<phase, stack, nls>> ELSE Dead
              [] c = "C" -> nls' = nls + 1 /\ UNCHANGED <<phase, stack>>
              [] c = "B" -> UNCHANGED <<phase, stack, nls>>
              [] c = "E" -> phase' = "init" /\ nls' = 0 /\ UNCHANGED stack
              [] OTHER -> Dead
      [] phase = "init" ->
            CASE c = "A" -> UNCHANGED <<phase, stack, nls>>
              [] c = "I" -> stack' = <<"if0">> /\ UNCHANGED <<phase, nls>>
              [] c = "W" -> phase' = "loop0" /\ UNCHANGED <<stack, nls>>
              [] c \in {"B", "C"} -> UNCHANGED <<phase, stack, nls>>
              [] OTHER -> Dead
      [] phase = "loop0" ->
            CASE c = "A" -> phase' = "loop" /\ UNCHANGED <<stack, nls>>
              [] c = "I" -> phase' = "loop" /\ stack' = <<"if0">> /\ UNCHANGED nls
              [] c \in {"B", "C"} -> UNCHANGED <<phase, stack, nls>>
              [] OTHER -> Dead
      [] phase = "loop" ->
            CASE c = "A" -> UNCHANGED <<phase, stack, nls>>
              [] c = "I" -> stack' = <<"if0">> /\ UNCHANGED <<phase, nls>>
              [] c = "E" -> phase' = "done" /\ UNCHANGED <<stack, nls>>
              [] c \in {"B", "C"} -> UNCHANGED <<phase, stack, nls>>
              [] OTHER -> Dead
      [] phase = "done" ->
            IF c \in {"B", "C"} THEN UNCHANGED <<phase, stack, nls>> ELSE Dead
      [] OTHER -> UNCHANGED <<phase, stack, nls>>          \* dead stays dead

\* a rejected prefix is not extended: every live prefix and every shortest rejected one are enumerated
Consume(c) ==
    /\ Len(seq) < MaxLen /\ phase # "dead"
    /\ seq' = Append(seq, c)
    /\ IF phase # "dead" /\ stack # <<>> THEN InBlock(c) ELSE TopLevel(c)

Next == \E c \in Cat : Consume(c)
Spec == Init /\ [][Next]_vars

WellFormed == phase = "done" /\ stack = <<>>
\* design properties of the machine
DeadIsFinal == [][phase = "dead" => phase' = "dead"]_vars
StackOnlyInBodies == stack # <<>> => phase \in {"init", "loop"}
DoneHasNoOpenBlock == phase = "done" => stack = <<>>

Emit == PrintT("@@LINES " \o ToJson([s |-> seq, ok |-> WellFormed, dead |-> phase = "dead"]))
=============================================================================
