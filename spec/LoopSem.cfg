SPECIFICATION Spec
INVARIANT WeightOK
PROPERTY FrozenOK
CHECK_DEADLOCK FALSE
