---------------------------- MODULE LinRecFamily ----------------------------
(***************************************************************************)
(* spec -> code: TLC enumerates a complete family of small linear systems  *)
(* (every k x k matrix over Lo..Hi, every initial vector over VLo..VHi,    *)
(* inhomogeneous part over BSet) as initial states of the machine          *)
(* x' = A x + b, runs each for Steps steps, and writes every behaviour     *)
(* (A, b, v, x(0..Steps)) as one output line.  The harness replays them into      *)
(* Polar's solvers.  Entries are small, native integers suffice here.      *)
(***************************************************************************)
EXTENDS Integers, Sequences, FiniteSets, FiniteSetsExt, TLC, Json, IOUtils
CONSTANTS Kdim, Hi, VHi, Steps, BHi
Ent == (0 - Hi)..Hi
VEnt == (0 - 1)..VHi
BEnt == 0..BHi
VARIABLES A, b, v, x, hist
vars == <<A, b, v, x, hist>>
RECURSIVE Dot(_, _, _)
Dot(row, vec, j) == IF j > Kdim THEN 0 ELSE row[j] * vec[j] + Dot(row, vec, j + 1)
MatVec(M, c, vec) == [i \in 1..Kdim |-> Dot(M[i], vec, 1) + c[i]]
Init == /\ A \in [1..Kdim -> [1..Kdim -> Ent]]
        /\ b \in [1..Kdim -> BEnt]
        /\ v \in [1..Kdim -> VEnt]
        /\ x = v
        /\ hist = <<v>>
Next == /\ Len(hist) <= Steps
        /\ x' = MatVec(A, b, x)
        /\ hist' = Append(hist, x')
        /\ UNCHANGED <<A, b, v>>
Spec == Init /\ [][Next]_vars
\* every completed behaviour is written out once (as a side effect of evaluating this constraint)
Emit == IF Len(hist) = Steps + 1
        THEN PrintT("@@FAM " \o ToJson([A |-> A, b |-> b, v |-> v, xs |-> hist]))
        ELSE TRUE
=============================================================================
