----------------------------- MODULE ExactTest -----------------------------
(* Self test of Exact against TLC's native arithmetic, with Base = 10 so   *)
(* that carries, borrows and multi-limb paths are exercised by small       *)
(* operands.  State = a pair (a, b) of native integers; every state is     *)
(* checked by the invariants.                                              *)
EXTENDS Integers, Sequences, TLC
CONSTANTS Base, D, Hi
INSTANCE Exact
VARIABLES a, b
Init == a \in (0 - Hi)..Hi /\ b = 0 - Hi
Next == b < Hi /\ b' = b + 1 /\ a' = a

RECURSIVE NVal(_)
NVal(m) == IF m = <<>> THEN 0 ELSE m[1] + Base * NVal(Tail(m))
ZVal(z) == IF z.s = 1 THEN 0 - NVal(z.m) ELSE NVal(z.m)
RECURSIVE Pow(_, _)
Pow(x, e) == IF e = 0 THEN 1 ELSE x * Pow(x, e - 1)
Canon(m) == m = <<>> \/ (m[Len(m)] # 0 /\ \A i \in 1..Len(m) : m[i] \in 0..(Base - 1))
Sgn(i) == IF i < 0 THEN -1 ELSE IF i > 0 THEN 1 ELSE 0

IntOK == LET za == ZFromInt(a) zb == ZFromInt(b) IN
    /\ ZVal(za) = a /\ Canon(za.m)
    /\ ZVal(ZAdd(za, zb)) = a + b /\ Canon(ZAdd(za, zb).m)
    /\ ZVal(ZSub(za, zb)) = a - b /\ Canon(ZSub(za, zb).m)
    /\ ZVal(ZMul(za, zb)) = a * b /\ Canon(ZMul(za, zb).m)
    /\ ZVal(ZMk((za.s + zb.s) % 2, NMulSchool(za.m, zb.m, 1))) = a * b
    /\ ZCmp(za, zb) = Sgn(a - b)
    /\ (ZAdd(za, zb) = ZZero) = (a + b = 0)

DivOK == \A m \in 1..(Base - 1) : a >= 0 =>
    LET d == NDivSmall(NFromNat(a), m) IN NVal(d.q) = a \div m /\ d.r = a % m /\ Canon(d.q)

\* rationals a/D^i, b/D^j for i, j in 0..2
RVal3(x) == ZVal(RZ(x)) * Pow(D, 3 - x.k)      \* value * D^3, for k <= 3
RatOK == \A i \in 0..1, j \in 0..2 :
    LET x == RNormMK(ZFromInt(a).s, ZFromInt(a).m, i)
        y == RNormMK(ZFromInt(b).s, ZFromInt(b).m, j)
    IN  /\ x.k <= i /\ (x.k > 0 => NDivSmall(x.m, D).r # 0)
        /\ ZVal(RZ(x)) * Pow(D, i - x.k) = a
        /\ RVal3(RAdd(x, y)) = a * Pow(D, 3 - i) + b * Pow(D, 3 - j)
        /\ RVal3(RSub(x, y)) = a * Pow(D, 3 - i) - b * Pow(D, 3 - j)
        /\ RVal3(RMul(x, y)) = a * b * Pow(D, 3 - i - j)
        /\ RCmp(x, y) = Sgn(a * Pow(D, j) - b * Pow(D, i))
        /\ RNormMK(RAdd(x, y).s, RAdd(x, y).m, RAdd(x, y).k) = RAdd(x, y)
        /\ (b > 0 => REqFrac(x, ZFromInt(a), ZFromInt(Pow(D, i))))
        /\ (b > 0 => REqFrac(x, ZFromInt(a * b), ZFromInt(b * Pow(D, i))))
        /\ (b > 0 => RCmpFrac(x, ZFromInt(a + 1), ZFromInt(Pow(D, i))) = -1)

DualOK == LET x == SMk(RFromInt(a), RFromInt(1)) y == SMk(RFromInt(b), RFromInt(2)) IN
    /\ SMul(x, y) = SMk(RFromInt(a * b), RFromInt(2 * a + b))
    /\ SPow(x, 3) = SMk(RFromInt(a * a * a), RFromInt(3 * a * a))
    /\ SAdd(x, y) = SMk(RFromInt(a + b), RFromInt(3))

DivSmallOK == a # 0 => \A m \in {1, 2, 3, 4, 6, 8, 9, 12} :
    LET q == RDivSmall(RFromInt(a), m) IN RMul(q, RFromInt(m)) = RFromInt(a)
=============================================================================
