------------------------------ MODULE Pipeline ------------------------------
(***************************************************************************)
(* normalize_program (program/transformer/__init__.py) as a machine over   *)
(* STRUCTURAL FACTS of the program.  Each pass has a contract: what it     *)
(* requires (Pre), what it establishes and what it must not disturb (Post).*)
(*                                                                         *)
(* A state is the set f of facts that (still) hold of the program:         *)
(*   G  the loop guard is not `true'                                       *)
(*   I  there is an if-statement                                           *)
(*   M  some variable is assigned more than once in the loop body          *)
(*   R  some atom is not of the form  variable cop number                  *)
(*   N  some atom is not of the form  variable == number (under and/or/not) *)
(*   C  some assignment carries a condition                                *)
(*   P  a Normal/Uniform/Laplace/Exponential draw has variable parameters  *)
(* The recurrence builder needs f \subseteq {C} (single assignment per     *)
(* variable, flat, conditions normalized) and f = {} under cond2arithm.    *)
(*                                                                         *)
(* Mode "model": every initial fact set, every outcome a contract allows;  *)
(*   TLC proves the contracts compose: every pass finds its precondition   *)
(*   and the pipeline ends in normal form.                                 *)
(* Mode "trace": fact sets observed after every pass of the real pipeline  *)
(*   (harness/polar_worker.py:features) must be steps of this machine.     *)
(***************************************************************************)
EXTENDS Integers, Sequences, FiniteSets, TLC, Json, IOUtils

Batch == JsonDeserialize(IOEnv.BATCH_FILE)
Mode == Batch.mode

Feat == {"G", "I", "M", "R", "N", "C", "P"}
Order == << "LoopGuardTransformer", "DistTransformer", "IfTransformer", "MultiAssignTransformer",
            "ConditionsReducer", "ConstantsTransformer", "UpdateInfoTransformer", "TypeInferer",
            "UpdateInfoTransformer", "ConditionsNormalizer", "ConditionsToArithm" >>
Last == Len(Order)

WellFormed(f) == f \subseteq Feat /\ ("R" \in f => "N" \in f)
Same(S, f, g) == f \cap S = g \cap S
NoNew(S, f, g) == g \cap S \subseteq f

Pre(p, f) ==
    CASE p = "IfTransformer"          -> "G" \notin f
      [] p = "MultiAssignTransformer" -> "I" \notin f
      [] p = "ConditionsReducer"      -> "I" \notin f
      [] p = "ConstantsTransformer"   -> "I" \notin f
      [] p = "ConditionsNormalizer"   -> f \cap {"I", "R"} = {}
      [] p = "ConditionsToArithm"     -> f \cap {"I", "R", "N"} = {}
      [] OTHER                        -> TRUE

Post(p, f, g) ==
    /\ WellFormed(g)
    /\ CASE p = "LoopGuardTransformer" ->
               /\ "G" \notin g
               /\ ("G" \in f => "I" \in g)                      \* while c: B  becomes  while true: if c: B
               /\ ("I" \in g => ("I" \in f \/ "G" \in f))
               /\ Same({"M", "R", "N", "C", "P"}, f, g)
         [] p = "DistTransformer" ->
               /\ "P" \notin g
               /\ Same({"G", "I", "M", "R", "N", "C"}, f, g)
         [] p = "IfTransformer" ->
               /\ "I" \notin g
               /\ Same({"G", "P"}, f, g)
               /\ NoNew({"R"}, f, g)                             \* atoms keep their operands
               \* M, C may appear: branches become conditioned assignments; N may appear when a negated
               \* comparison is simplified into the complementary comparison
         [] p = "MultiAssignTransformer" ->
               /\ "M" \notin g
               /\ Same({"G", "I", "R", "N", "C", "P"}, f, g)
         [] p = "ConditionsReducer" ->
               /\ "R" \notin g
               /\ Same({"G", "I", "M", "C", "P"}, f, g)
               /\ NoNew({"N"}, f, g)
         [] p = "ConstantsTransformer" ->
               /\ Same({"G", "I", "M", "P"}, f, g)
               /\ NoNew({"R", "N", "C"}, f, g)
         [] p = "ConditionsNormalizer" ->
               /\ g \cap {"R", "N"} = {}
               /\ Same({"G", "I", "M", "P"}, f, g)
               /\ NoNew({"C"}, f, g)
         [] p = "ConditionsToArithm" ->
               /\ "C" \notin g
               /\ Same({"G", "I", "M", "R", "N", "P"}, f, g)
         [] OTHER -> g = f                                     \* UpdateInfoTransformer, TypeInferer

Normal(f, c2a) == f \subseteq (IF c2a THEN {} ELSE {"C"})

VARIABLES tid, pc, f, pos, fails, done
vars == <<tid, pc, f, pos, fails, done>>
Tr == Batch.traces[tid]
SetOf(s) == {s[i] : i \in 1..Len(s)}
Skippable(i, c2a, noinfer) == (Order[i] = "TypeInferer" /\ noinfer) \/ (Order[i] = "ConditionsToArithm" /\ ~c2a)

Init ==
    \/ /\ Mode = "model" /\ tid \in {0, 1}                       \* tid = 1: cond2arithm on
       /\ f \in {s \in SUBSET Feat : WellFormed(s)}
       /\ pc = 1 /\ pos = 0 /\ fails = <<>> /\ done = FALSE
    \/ /\ Mode = "trace" /\ tid \in 1..Len(Batch.traces)
       /\ f = SetOf(Tr.f0) /\ pc = 1 /\ pos = 0 /\ fails = <<>> /\ done = FALSE

\* model: pass pc runs (or is skipped when optional) with any outcome its contract allows
ModelStep ==
    /\ Mode = "model" /\ pc <= Last
    /\ IF Skippable(pc, tid = 1, FALSE)
       THEN f' = f
       ELSE \E g \in SUBSET Feat : Post(Order[pc], f, g) /\ f' = g
    /\ pc' = pc + 1
    /\ UNCHANGED <<tid, pos, fails, done>>

\* trace: the next observed pass must be the next pass of Order that is not skippable, and meet its contract
NextIdx(p) == LET c == {i \in pc..Last : Order[i] = p /\ \A j \in pc..(i - 1) : Skippable(j, Tr.c2a, Tr.noinfer)}
              IN  IF c = {} THEN 0 ELSE CHOOSE i \in c : \A j \in c : i <= j
TraceStep ==
    /\ Mode = "trace" /\ ~done /\ pos < Len(Tr.steps)
    /\ LET st == Tr.steps[pos + 1]
           g  == SetOf(st.feat)
           i  == NextIdx(st.pass)
           bad == (IF i = 0 THEN <<[pos |-> pos + 1, pass |-> st.pass, clause |-> "order"]>> ELSE <<>>)
                  \o (IF i # 0 /\ ~Pre(st.pass, f) THEN <<[pos |-> pos + 1, pass |-> st.pass, clause |-> "pre"]>> ELSE <<>>)
                  \o (IF ~Post(st.pass, f, g) THEN <<[pos |-> pos + 1, pass |-> st.pass, clause |-> "post"]>> ELSE <<>>)
       IN  /\ fails' = fails \o bad
           /\ f' = g
           /\ pc' = IF i = 0 THEN pc ELSE i + 1
    /\ pos' = pos + 1
    /\ UNCHANGED <<tid, done>>

TraceFinish ==
    /\ Mode = "trace" /\ ~done /\ pos = Len(Tr.steps)
    /\ LET rest == {i \in pc..Last : ~Skippable(i, Tr.c2a, Tr.noinfer)}
           final == IF Tr.completed /\ rest # {} THEN <<[pos |-> pos, pass |-> "end", clause |-> "passes missing"]>>
                    ELSE IF Tr.completed /\ ~Normal(f, Tr.c2a) THEN <<[pos |-> pos, pass |-> "end", clause |-> "normal form"]>>
                    ELSE <<>>
       IN  JsonSerialize(IOEnv.OUT_DIR \o "/" \o Tr.id \o ".json", [id |-> Tr.id, steps |-> pos, fails |-> fails \o final])
    /\ done' = TRUE
    /\ UNCHANGED <<tid, pc, f, pos, fails>>

Next == ModelStep \/ TraceStep \/ TraceFinish
Spec == Init /\ [][Next]_vars

\* model-mode properties (trivially true in trace mode)
PreHolds == (Mode = "model" /\ pc <= Last /\ ~Skippable(pc, tid = 1, FALSE)) => Pre(Order[pc], f)
EndsNormal == (Mode = "model" /\ pc = Last + 1) => Normal(f, tid = 1)
Stable == WellFormed(f)
\* once removed, if-statements, guards and multiple assignments never come back
NoReturn == [][(Mode = "model" /\ pc > 4) => NoNew({"G", "I", "M", "P"}, f, f')]_vars
=============================================================================
