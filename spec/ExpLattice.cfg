SPECIFICATION Spec
INVARIANT TypeOK
CHECK_DEADLOCK FALSE
