------------------------------ MODULE Session ------------------------------
(***************************************************************************)
(* One Python process running several Polar analyses (as `polar.py a.prob  *)
(* b.prob ...' or a library user does).  The process-global state that     *)
(* survives from one analysis to the next is                               *)
(*     counter   utils.identifiers._count_unique_var                       *)
(*     opt       the settings module (options that alter normalisation)    *)
(*     flag      FunctionalAssignment.exact_func_moments (class attribute, *)
(*               copied from settings at the END of normalize_program)     *)
(* Fresh names are "_" \o prefix \o counter; a program may legally use     *)
(* variables that look like that ("_t0", "_old3").                         *)
(*                                                                         *)
(* Per program p and option set o the batch gives Fresh[p][o], the         *)
(* sequence of prefixes for which parsing and normalising p ask a fresh    *)
(* name (measured in a fresh process), and UserGen[p], the user variables  *)
(* of p of the shape <<prefix, index>>.                                    *)
(*                                                                         *)
(* Properties                                                              *)
(*   CounterOK      the counter equals the number of names handed out or   *)
(*                  skipped so far (the replay compares the real counter   *)
(*                  with the model's after every action)                   *)
(*   NoCollision    no analysis is handed a fresh name equal to one of its *)
(*                  own user variables.  Holds with name reservation       *)
(*                  (Batch.reserve); without it TLC finds histories that   *)
(*                  violate it -- predictions of history dependence that   *)
(*                  the harness replayed on the real code (finding D14)    *)
(*   FlagFollows    after an analysis the class flag equals the option in  *)
(*                  force during that analysis                             *)
(* Every behaviour up to MaxLen actions is emitted for replay.             *)
(***************************************************************************)
EXTENDS Integers, Sequences, FiniteSets, TLC, Json, IOUtils

Batch == JsonDeserialize(IOEnv.BATCH_FILE)
Progs == 1..Len(Batch.programs)
Opts == {Batch.options[i] : i \in 1..Len(Batch.options)}
MaxLen == Batch.maxLen

VARIABLES counter, opt, flag, hist, handed, collided
vars == <<counter, opt, flag, hist, handed, collided>>

\* canonical key of an option set, as the harness writes it: options in batch order joined by "+"
RECURSIVE KeyFrom(_, _)
KeyFrom(i, o) == IF i > Len(Batch.options) THEN ""
                 ELSE (IF Batch.options[i] \in o THEN Batch.options[i] \o "+" ELSE "") \o KeyFrom(i + 1, o)
Fresh(p, o) == Batch.programs[p].fresh[KeyFrom(1, o)]
\* whether normalization of p completes under the options o (measured in a fresh process): the class flag is written
\* at the very end of normalize_program, a refused program leaves it as it was (harmless: every analysis that
\* computes moments has passed that point)
Normalizes(p, o) == Batch.programs[p].normalizes[KeyFrom(1, o)]
UserGen(p) == {<<Batch.programs[p].userGen[i].p, Batch.programs[p].userGen[i].k>> :
                  i \in 1..Len(Batch.programs[p].userGen)}

Init == /\ counter = 0 /\ opt = {} /\ flag = FALSE /\ hist = <<>> /\ handed = 0 /\ collided = FALSE

Toggle(o) ==
    /\ opt' = IF o \in opt THEN opt \ {o} ELSE opt \cup {o}
    /\ hist' = Append(hist, [a |-> "toggle", o |-> o, counter |-> counter, collided |-> FALSE])
    /\ UNCHANGED <<counter, flag, handed, collided>>

\* parsing first moves the counter past every identifier of the program that looks generated
\* (utils.identifiers.reserve_identifiers); set Batch.reserve = FALSE to model the code before that repair
Reserved(p) == IF Batch.reserve /\ UserGen(p) # {}
               THEN 1 + CHOOSE k \in {g[2] : g \in UserGen(p)} : \A g \in UserGen(p) : g[2] <= k
               ELSE 0
Analyze(p) ==
    LET fr == Fresh(p, opt)
        start == IF Reserved(p) > counter THEN Reserved(p) ELSE counter
        names == {<<fr[i], start + i - 1>> : i \in 1..Len(fr)}
        col == names \cap UserGen(p) # {}
    IN  /\ counter' = start + Len(fr)
        /\ handed' = handed + Len(fr) + (start - counter)
        /\ collided' = col
        /\ flag' = IF Normalizes(p, opt) THEN ("exact" \in opt) ELSE flag
        /\ hist' = Append(hist, [a |-> "analyze", p |-> Batch.programs[p].id, counter |-> start + Len(fr),
                                 collided |-> col])
        /\ UNCHANGED opt

Next == /\ Len(hist) < MaxLen
        /\ \/ \E o \in Opts : Toggle(o)
           \/ \E p \in Progs : Analyze(p)
Spec == Init /\ [][Next]_vars

CounterOK == counter = handed
FlagFollows == [][\A p \in Progs : (Analyze(p) /\ Normalizes(p, opt)) => flag' = ("exact" \in opt)]_vars
NoCollision == ~collided

\* emit every maximal history (constraint evaluated on every state)
Emit == IF Len(hist) = MaxLen THEN PrintT("@@HIST " \o ToJson(hist)) ELSE TRUE
=============================================================================
