------------------------------- MODULE Exact -------------------------------
(***************************************************************************)
(* Exact arithmetic for TLC (whose integers are 32 bit and abort on        *)
(* overflow).                                                              *)
(*                                                                         *)
(*  N*  naturals  : little-endian sequences of limbs in 0..Base-1, no      *)
(*                  most-significant zero limb; zero is <<>>.              *)
(*  Z*  integers  : [s |-> 0|1, m |-> natural]   (s = 1 means negative;    *)
(*                  zero is always [s |-> 0, m |-> <<>>]).                 *)
(*  R*  rationals : [s, m, k]  meaning (-1)^s * m / D^k  with k minimal,   *)
(*                  D a one-limb constant (the per-batch denominator       *)
(*                  base).  Canonical, so structural equality is value     *)
(*                  equality.                                              *)
(*  S*  scalars   : dual numbers [a |-> R, b |-> R] = a + b*eps, eps^2=0.  *)
(*                  With b = 0 ordinary arithmetic; seeding a parameter    *)
(*                  with b = 1 makes every derived quantity carry its      *)
(*                  exact derivative w.r.t. that parameter.                *)
(*  Q*  fractions : arbitrary p/q given as two integers (claims coming     *)
(*                  from the implementation); compared by                  *)
(*                  cross-multiplication only.                             *)
(***************************************************************************)
EXTENDS Integers, Sequences

CONSTANTS Base,   \* limb base, 10000 in production, 10 in the self test
          D       \* denominator base of the rationals, 2 <= D < Base

----------------------------------------------------------------------------
(* naturals *)

NZero == <<>>

RECURSIVE NNorm(_)
NNorm(a) == IF a = <<>> THEN a
            ELSE IF a[Len(a)] = 0 THEN NNorm(SubSeq(a, 1, Len(a) - 1)) ELSE a

RECURSIVE NFromNat(_)
NFromNat(i) == IF i = 0 THEN <<>> ELSE <<i % Base>> \o NFromNat(i \div Base)

Limb(a, i) == IF i <= Len(a) THEN a[i] ELSE 0

RECURSIVE NAddC(_, _, _, _)
NAddC(a, b, i, c) ==
    IF i > Len(a) /\ i > Len(b)
    THEN (IF c = 0 THEN <<>> ELSE <<c>>)
    ELSE LET s == Limb(a, i) + Limb(b, i) + c
         IN  <<s % Base>> \o NAddC(a, b, i + 1, s \div Base)

NAdd(a, b) == IF a = <<>> THEN b ELSE IF b = <<>> THEN a ELSE NAddC(a, b, 1, 0)

\* -1, 0, 1
RECURSIVE NCmpFrom(_, _, _)
NCmpFrom(a, b, i) == IF i = 0 THEN 0
                     ELSE IF a[i] < b[i] THEN -1
                     ELSE IF a[i] > b[i] THEN 1
                     ELSE NCmpFrom(a, b, i - 1)
NCmp(a, b) == IF Len(a) < Len(b) THEN -1
              ELSE IF Len(a) > Len(b) THEN 1
              ELSE NCmpFrom(a, b, Len(a))

\* a - b for a >= b
RECURSIVE NSubB(_, _, _, _)
NSubB(a, b, i, br) ==
    IF i > Len(a) THEN <<>>
    ELSE LET d == a[i] - Limb(b, i) - br
         IN  IF d < 0 THEN <<d + Base>> \o NSubB(a, b, i + 1, 1)
                      ELSE <<d>> \o NSubB(a, b, i + 1, 0)
NSub(a, b) == IF b = <<>> THEN a ELSE NNorm(NSubB(a, b, 1, 0))

\* a * m for a native 0 <= m < Base
RECURSIVE NMulSmallC(_, _, _, _)
NMulSmallC(a, m, i, c) ==
    IF i > Len(a) THEN (IF c = 0 THEN <<>> ELSE <<c>>)
    ELSE LET s == a[i] * m + c
         IN  <<s % Base>> \o NMulSmallC(a, m, i + 1, s \div Base)
NMulSmall(a, m) == IF m = 0 \/ a = <<>> THEN <<>>
                   ELSE IF m = 1 THEN a ELSE NMulSmallC(a, m, 1, 0)

NShift(a, j) == IF a = <<>> THEN a ELSE [i \in 1..j |-> 0] \o a

\* schoolbook product: always safe
RECURSIVE NMulSchool(_, _, _)
NMulSchool(a, b, j) ==
    IF j > Len(b) THEN <<>>
    ELSE NAdd(NShift(NMulSmall(a, b[j]), j - 1), NMulSchool(a, b, j + 1))

\* column sums; safe while min(Len a, Len b) * (Base-1)^2 + carry < 2^31
RECURSIVE ColSum(_, _, _, _, _)
ColSum(a, b, k, i, hi) ==
    IF i > hi THEN 0 ELSE a[i] * b[k + 1 - i] + ColSum(a, b, k, i + 1, hi)
Col(a, b, k) ==
    LET lo == IF k + 1 - Len(b) > 1 THEN k + 1 - Len(b) ELSE 1
        hi == IF k < Len(a) THEN k ELSE Len(a)
    IN  ColSum(a, b, k, lo, hi)
RECURSIVE Carry(_, _, _, _)
Carry(cols, i, n, c) ==
    IF i > n THEN (IF c = 0 THEN <<>> ELSE NFromNat(c))
    ELSE LET s == cols[i] + c
         IN  <<s % Base>> \o Carry(cols, i + 1, n, s \div Base)
CarryCols(cols, n) == Carry(cols, 1, n, 0)
\* ColLimit columns of (Base-1)^2 plus the incoming carry stay below 2^31
ColLimit == 2147483647 \div ((Base - 1) * (Base - 1)) - 1
NMul(a, b) ==
    IF a = <<>> \/ b = <<>> THEN <<>>
    ELSE IF Len(a) = 1 THEN NMulSmall(b, a[1])
    ELSE IF Len(b) = 1 THEN NMulSmall(a, b[1])
    ELSE IF Len(a) <= ColLimit \/ Len(b) <= ColLimit
         THEN LET n == Len(a) + Len(b) - 1
                  cols == [k \in 1..n |-> Col(a, b, k)]
              IN  NNorm(CarryCols(cols, n))
         ELSE NMulSchool(a, b, 1)

\* division by a native 1 <= m < Base : [q |-> natural, r |-> native remainder]
RECURSIVE NDivSmallR(_, _, _, _)
NDivSmallR(a, m, i, r) ==       \* returns the quotient limbs i..1 (little endian) and final remainder
    IF i = 0 THEN [q |-> <<>>, r |-> r]
    ELSE LET cur  == r * Base + a[i]
             rest == NDivSmallR(a, m, i - 1, cur % m)
         IN  [q |-> rest.q \o <<cur \div m>>, r |-> rest.r]
NDivSmall(a, m) == LET x == NDivSmallR(a, m, Len(a), 0) IN [q |-> NNorm(x.q), r |-> x.r]

NIsZero(a) == a = <<>>

----------------------------------------------------------------------------
(* integers *)

ZZero == [s |-> 0, m |-> <<>>]
ZMk(s, m) == IF m = <<>> THEN ZZero ELSE [s |-> s, m |-> m]
ZFromInt(i) == IF i < 0 THEN ZMk(1, NFromNat(0 - i)) ELSE ZMk(0, NFromNat(i))
ZNeg(x) == ZMk(1 - x.s, x.m)
ZAdd(x, y) ==
    IF x.s = y.s THEN ZMk(x.s, NAdd(x.m, y.m))
    ELSE LET c == NCmp(x.m, y.m)
         IN  IF c = 0 THEN ZZero
             ELSE IF c > 0 THEN ZMk(x.s, NSub(x.m, y.m))
             ELSE ZMk(y.s, NSub(y.m, x.m))
ZSub(x, y) == ZAdd(x, ZNeg(y))
ZMul(x, y) == ZMk((x.s + y.s) % 2, NMul(x.m, y.m))
ZSign(x) == IF x.m = <<>> THEN 0 ELSE IF x.s = 1 THEN -1 ELSE 1
ZCmp(x, y) == ZSign(ZSub(x, y))

----------------------------------------------------------------------------
(* rationals with denominator D^k *)

RZero == [s |-> 0, m |-> <<>>, k |-> 0]

RECURSIVE RNormMK(_, _, _)
RNormMK(s, m, k) ==
    IF m = <<>> THEN RZero
    ELSE IF k = 0 THEN [s |-> s, m |-> m, k |-> 0]
    ELSE LET d == NDivSmall(m, D)
         IN  IF d.r = 0 THEN RNormMK(s, d.q, k - 1) ELSE [s |-> s, m |-> m, k |-> k]

RECURSIVE NMulDPow(_, _)
NMulDPow(m, j) == IF j = 0 THEN m ELSE NMulDPow(NMulSmall(m, D), j - 1)

RFromInt(i) == LET z == ZFromInt(i) IN [s |-> z.s, m |-> z.m, k |-> 0]
ROne == RFromInt(1)
RZ(x) == [s |-> x.s, m |-> x.m]          \* numerator as an integer
RNeg(x) == IF x.m = <<>> THEN x ELSE [x EXCEPT !.s = 1 - x.s]
RAdd(x, y) ==
    IF x.m = <<>> THEN y ELSE IF y.m = <<>> THEN x
    ELSE LET k  == IF x.k > y.k THEN x.k ELSE y.k
             zx == [s |-> x.s, m |-> NMulDPow(x.m, k - x.k)]
             zy == [s |-> y.s, m |-> NMulDPow(y.m, k - y.k)]
             z  == ZAdd(zx, zy)
         IN  RNormMK(z.s, z.m, k)
RSub(x, y) == RAdd(x, RNeg(y))
RMul(x, y) ==
    IF x.m = <<>> \/ y.m = <<>> THEN RZero
    ELSE RNormMK((x.s + y.s) % 2, NMul(x.m, y.m), x.k + y.k)
RSign(x) == IF x.m = <<>> THEN 0 ELSE IF x.s = 1 THEN -1 ELSE 1
RCmp(x, y) == RSign(RSub(x, y))
RIsInt(x) == x.k = 0

\* x / m for a native m >= 1 all of whose prime factors divide D
RECURSIVE RDivSmallJ(_, _, _)
RDivSmallJ(x, m, j) ==
    LET d == NDivSmall(NMulDPow(x.m, j), m)
    IN  IF d.r = 0 THEN RNormMK(x.s, d.q, x.k + j)
        ELSE IF j >= 40 THEN [s |-> 0, m |-> <<>>, k |-> 0, undefined |-> TRUE]
        ELSE RDivSmallJ(x, m, j + 1)
RDivSmall(x, m) == IF x.m = <<>> THEN x ELSE RDivSmallJ(x, m, 0)

RECURSIVE RPow(_, _)
RPow(x, e) == IF e = 0 THEN ROne ELSE IF e = 1 THEN x ELSE RMul(x, RPow(x, e - 1))

----------------------------------------------------------------------------
(* dual numbers *)

SMk(a, b) == [a |-> a, b |-> b]
SLift(r) == [a |-> r, b |-> RZero]
SZero == SLift(RZero)
SOne == SLift(ROne)
SFromInt(i) == SLift(RFromInt(i))
SAdd(x, y) == [a |-> RAdd(x.a, y.a), b |-> RAdd(x.b, y.b)]
SNeg(x) == [a |-> RNeg(x.a), b |-> RNeg(x.b)]
SSub(x, y) == SAdd(x, SNeg(y))
SMul(x, y) == [a |-> RMul(x.a, y.a), b |-> RAdd(RMul(x.a, y.b), RMul(x.b, y.a))]
SDivSmall(x, m) == [a |-> RDivSmall(x.a, m), b |-> RDivSmall(x.b, m)]
SIsZero(x) == x.a.m = <<>> /\ x.b.m = <<>>
RECURSIVE SPow(_, _)
SPow(x, e) == IF e = 0 THEN SOne ELSE IF e = 1 THEN x ELSE SMul(x, SPow(x, e - 1))
\* comparisons look at the real part only
SCmp(x, y) == RCmp(x.a, y.a)

----------------------------------------------------------------------------
(* arbitrary fractions p/q (q > 0) as claimed by the implementation *)

\* x = p/q   <=>   x.num * q = p * D^k
RECURSIVE ZMulDPow(_, _)
ZMulDPow(z, j) == [s |-> z.s, m |-> NMulDPow(z.m, j)]
REqFrac(x, p, q) == ZMul(RZ(x), q) = ZMk(p.s, NMulDPow(p.m, x.k))
\* sign of x - p/q  (q > 0)
RCmpFrac(x, p, q) == ZCmp(ZMul(RZ(x), q), ZMulDPow(p, x.k))

=============================================================================
