SPECIFICATION Spec
INVARIANT Closed
INVARIANT Confluent
INVARIANT Bounded
PROPERTY Progress
CHECK_DEADLOCK FALSE
