------------------------------ MODULE Worklist ------------------------------
(***************************************************************************)
(* RecBuilder.get_recurrences as a nondeterministic worklist.              *)
(*                                                                         *)
(*   to_process := {start}; processed := {}                                *)
(*   while to_process # {}:                                                *)
(*       m := to_process.pop()            -- ANY element (Python set)      *)
(*       build the recurrence of m; its right-hand side mentions Dep[m]    *)
(*       processed := processed + {m}                                      *)
(*       to_process := to_process + (Dep[m] \ processed)                   *)
(*                                                                         *)
(* Dep is the (unknown in advance) dependency relation of the monomials.   *)
(* Properties, for EVERY pop order:                                        *)
(*   Closed      at termination every monomial on a right-hand side has    *)
(*               its own equation:  \A m \in processed : Dep[m] \subseteq  *)
(*               processed                                                 *)
(*   Confluent   at termination processed = Closure(start): the system     *)
(*               does not depend on the order (hash seed)                  *)
(*   Progress    each monomial is popped at most once (action property)    *)
(* Mode "model": TLC chooses every relation Dep over Nodes as initial      *)
(* state and explores every pop order.  Mode "trace": recorded pop orders  *)
(* of the real builder (several hash seeds) must be behaviours and end in  *)
(* the closure.                                                            *)
(***************************************************************************)
EXTENDS Integers, Sequences, FiniteSets, TLC, Json, IOUtils

Batch == JsonDeserialize(IOEnv.BATCH_FILE)
Mode == Batch.mode
N == Batch.nodes                       \* model mode: nodes 1..N, start = 1

VARIABLES tid, dep, toProcess, processed, pos, ok, done
vars == <<tid, dep, toProcess, processed, pos, ok, done>>

Tr == Batch.traces[tid]
TraceDep == [m \in 1..Tr.n |-> {Tr.deps[m][j] : j \in 1..Len(Tr.deps[m])}]

RECURSIVE Reach(_, _, _)
Reach(d, S, k) == IF k = 0 THEN S ELSE Reach(d, S \cup UNION {d[m] : m \in S}, k - 1)
Closure(d, start) == Reach(d, {start}, Cardinality(DOMAIN d))

Init ==
    \/ /\ Mode = "model" /\ tid = 0
       /\ dep \in [1..N -> SUBSET (1..N)]
       /\ toProcess = {1} /\ processed = {} /\ pos = 0 /\ ok = TRUE /\ done = FALSE
    \/ /\ Mode = "trace" /\ tid \in 1..Len(Batch.traces)
       /\ dep = TraceDep
       /\ toProcess = {Tr.start} /\ processed = {} /\ pos = 0 /\ ok = TRUE /\ done = FALSE

Pop(m) ==
    /\ m \in toProcess
    /\ processed' = processed \cup {m}
    /\ toProcess' = (toProcess \ {m}) \cup (dep[m] \ (processed \cup {m}))
    /\ pos' = pos + 1

ModelStep == /\ Mode = "model" /\ toProcess # {} /\ \E m \in toProcess : Pop(m)
             /\ UNCHANGED <<tid, dep, ok, done>>

\* trace mode: the next recorded pop must be enabled
TraceStep ==
    /\ Mode = "trace" /\ ~done /\ ok /\ pos < Len(Tr.order)
    /\ LET m == Tr.order[pos + 1]
       IN  IF m \in toProcess
           THEN Pop(m) /\ ok' = TRUE
           ELSE /\ ok' = FALSE /\ pos' = pos /\ UNCHANGED <<toProcess, processed>>
    /\ UNCHANGED <<tid, dep, done>>

TraceFinish ==
    /\ Mode = "trace" /\ ~done /\ (~ok \/ pos = Len(Tr.order))
    /\ JsonSerialize(IOEnv.OUT_DIR \o "/" \o Tr.id \o ".json",
                     [id |-> Tr.id, accepted |-> ok /\ toProcess = {}, popped |-> pos,
                      closed |-> \A m \in processed : dep[m] \subseteq processed,
                      isClosure |-> processed = Closure(dep, Tr.start)])
    /\ done' = TRUE
    /\ UNCHANGED <<tid, dep, toProcess, processed, pos, ok>>

Next == ModelStep \/ TraceStep \/ TraceFinish
Spec == Init /\ [][Next]_vars

Start == IF Mode = "model" THEN 1 ELSE Tr.start
Terminated == toProcess = {} /\ (Mode = "model" \/ ok)
Closed == Terminated /\ pos > 0 => \A m \in processed : dep[m] \subseteq processed
Confluent == Terminated /\ pos > 0 => processed = Closure(dep, Start)
Bounded == pos <= Cardinality(DOMAIN dep)
Progress == [][\A m \in DOMAIN dep : (m \in processed) => (m \in processed' /\ m \notin toProcess')]_vars
=============================================================================
