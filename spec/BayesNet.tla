------------------------------ MODULE BayesNet ------------------------------
(***************************************************************************)
(* Discrete Bayesian networks as they are written in BIF files, and the    *)
(* trace specification for Polar's BIF import and its queries.             *)
(*                                                                         *)
(* A network has variables 1..NV (declaration order) with a domain size    *)
(* and a tuple of parents.  The conditional probability table of a         *)
(* variable may be written with three notations that are combined in this  *)
(* order: a `default' row, a `table' (all rows at once: the variable's own *)
(* value varies slowest, the parent combinations in product order with the *)
(* last parent fastest), and individual `(parent values) row' entries.     *)
(*                                                                         *)
(*   Assemble(b)   the CPT denoted by the blocks b of one variable         *)
(*   Accepts       every block is well formed, every row is specified and  *)
(*                 every written row sums to 1 within the tolerance        *)
(*   JointP(a)     probability of a full assignment a                      *)
(*   CondMoment    E[X^k | evidence]  with values numbered by position     *)
(*   SamplesUntil  1 / P(evidence)                                         *)
(*                                                                         *)
(* A trace is one rendering of a network as BIF text together with what    *)
(* Polar did with it: accepted or not, the parsed CPTs, query answers.     *)
(***************************************************************************)
EXTENDS Integers, Sequences, FiniteSets, FiniteSetsExt, TLC, Json, IOUtils

Batch == JsonDeserialize(IOEnv.BATCH_FILE)
Base == 10000
D == 2
INSTANCE Exact

Q(n, d) == [n |-> n, d |-> d]
QInt(i) == Q(ZFromInt(i), ZFromInt(1))
QZero == QInt(0)
QOne == QInt(1)
QAdd(x, y) == Q(ZAdd(ZMul(x.n, y.d), ZMul(y.n, x.d)), ZMul(x.d, y.d))
QSub(x, y) == QAdd(x, Q(ZNeg(y.n), y.d))
QMul(x, y) == Q(ZMul(x.n, y.n), ZMul(x.d, y.d))
QEq(x, y) == ZMul(x.n, y.d) = ZMul(y.n, x.d)
QCmp(x, y) == ZCmp(ZMul(x.n, y.d), ZMul(y.n, x.d))
QAbs(x) == IF ZSign(x.n) < 0 THEN Q(ZNeg(x.n), x.d) ELSE x
RECURSIVE QPow(_, _)
QPow(x, e) == IF e = 0 THEN QOne ELSE QMul(x, QPow(x, e - 1))
RECURSIVE QSumSeq(_, _)
QSumSeq(s, i) == IF i > Len(s) THEN QZero ELSE QAdd(s[i], QSumSeq(s, i + 1))

VARIABLES tid, fails, done
vars == <<tid, fails, done>>
Tr == Batch.traces[tid]
Net == Tr.net                 \* [vars |-> <<[dom, parents]>>]
NV == Len(Net.vars)
Dom(v) == Net.vars[v].dom
Parents(v) == Net.vars[v].parents
RECURSIVE ProdDom(_, _)
ProdDom(ps, i) == IF i > Len(ps) THEN 1 ELSE Dom(ps[i]) * ProdDom(ps, i + 1)
NumRows(v) == ProdDom(Parents(v), 1)
\* row number (0-based) of a tuple of parent values (0-based), product order, last parent fastest
RECURSIVE RowOf(_, _, _)
RowOf(v, cond, i) == IF i > Len(cond) THEN 0
                     ELSE cond[i] * ProdDom(Parents(v), i + 1) + RowOf(v, cond, i + 1)
\* parent values of a row number
CondOf(v, row) == [i \in 1..Len(Parents(v)) |-> (row \div ProdDom(Parents(v), i + 1)) % Dom(Parents(v)[i])]

SumValid(probs) == QCmp(QAbs(QSub(QOne, QSumSeq(probs, 1))), Tr.tol) < 0

\* blocks of variable v in this rendering
B(v) == Tr.blocks[v]
EntryFor(v, row) == {e \in 1..Len(B(v).entries) : RowOf(v, B(v).entries[e].cond, 1) = row}
Specified(v, row) == EntryFor(v, row) # {} \/ B(v).table # <<>> \/ B(v).default # <<>>
Cell(v, row, i) ==        \* i = own value, 0-based
    IF EntryFor(v, row) # {} THEN B(v).entries[CHOOSE e \in EntryFor(v, row) : TRUE].probs[i + 1]
    ELSE IF B(v).table # <<>> THEN B(v).table[row + i * NumRows(v) + 1]
    ELSE B(v).default[i + 1]
TableRow(v, row) == [i \in 1..Dom(v) |-> B(v).table[row + (i - 1) * NumRows(v) + 1]]

BlockOK(v) ==
    /\ (B(v).default # <<>> => Len(B(v).default) = Dom(v) /\ SumValid(B(v).default))
    /\ (B(v).table # <<>> => /\ Len(B(v).table) = Dom(v) * NumRows(v)
                             /\ \A row \in 0..(NumRows(v) - 1) : SumValid(TableRow(v, row)))
    /\ \A e \in 1..Len(B(v).entries) :
          /\ Len(B(v).entries[e].cond) = Len(Parents(v))
          /\ Len(B(v).entries[e].probs) = Dom(v)
          /\ SumValid(B(v).entries[e].probs)
          /\ \A j \in 1..Len(Parents(v)) : B(v).entries[e].cond[j] \in 0..(Dom(Parents(v)[j]) - 1)
          /\ \A e2 \in 1..Len(B(v).entries) : e2 # e => B(v).entries[e2].cond # B(v).entries[e].cond
    /\ \A row \in 0..(NumRows(v) - 1) : Specified(v, row)
Accepts == \A v \in 1..NV : BlockOK(v)

\* joint law of the reference network (the assembled CPTs)
Assignments == [1..NV -> 0..(Max({Dom(v) : v \in 1..NV}) - 1)]
Valid(a) == \A v \in 1..NV : a[v] < Dom(v)
JointP(a) == FoldSet(LAMBDA v, acc : QMul(acc, Cell(v, RowOf(v, [i \in 1..Len(Parents(v)) |-> a[Parents(v)[i]]], 1), a[v])),
                     QOne, 1..NV)
Holds(a, ev) == \A j \in 1..Len(ev) : a[ev[j].v] = ev[j].x
ProbEv(ev) == FoldSet(LAMBDA a, acc : IF Holds(a, ev) THEN QAdd(acc, JointP(a)) ELSE acc, QZero, {a \in Assignments : Valid(a)})
MomEv(t, k, ev) ==
    FoldSet(LAMBDA a, acc : IF Holds(a, ev) THEN QAdd(acc, QMul(QPow(QInt(a[t]), k), JointP(a))) ELSE acc,
            QZero, {a \in Assignments : Valid(a)})

ObsFails ==
    LET o == Tr.obs
        acc == Accepts
    IN  IF o.accepted # acc THEN <<[clause |-> "accepts", spec |-> acc, polar |-> o.accepted]>>
        ELSE IF ~acc THEN <<>>
        ELSE
        (IF \E v \in 1..NV : \E row \in 0..(NumRows(v) - 1) : \E i \in 0..(Dom(v) - 1) :
               ~QEq(o.cpt[v][row + 1][i + 1], Cell(v, row, i))
         THEN <<[clause |-> "cpt", v |-> CHOOSE v \in 1..NV : \E row \in 0..(NumRows(v) - 1) : \E i \in 0..(Dom(v) - 1) :
                                              ~QEq(o.cpt[v][row + 1][i + 1], Cell(v, row, i))]>> ELSE <<>>)
        \o FoldSet(LAMBDA j, f :
                     LET qy == o.queries[j]
                         pe == ProbEv(qy.ev)
                     IN  IF qy.kind = "inference"
                         THEN (IF QEq(QMul(qy.value, pe), MomEv(qy.t, qy.k, qy.ev)) THEN f
                               ELSE Append(f, [clause |-> "inference", query |-> j, prob_ev |-> pe, mom |-> MomEv(qy.t, qy.k, qy.ev)]))
                         ELSE (IF QEq(QMul(qy.value, pe), QOne) THEN f
                               ELSE Append(f, [clause |-> "sampling-time", query |-> j, prob_ev |-> pe])),
                   <<>>, 1..Len(o.queries))

Init == /\ tid \in 1..Len(Batch.traces) /\ fails = ObsFails /\ done = FALSE
Finish == /\ ~done
          /\ JsonSerialize(IOEnv.OUT_DIR \o "/" \o Tr.id \o ".json", [id |-> Tr.id, accepts |-> Accepts, fails |-> fails])
          /\ done' = TRUE /\ UNCHANGED <<tid, fails>>
Next == Finish
Spec == Init /\ [][Next]_vars
TypeOK == done \in BOOLEAN
=============================================================================
