------------------------------- MODULE Dists -------------------------------
(***************************************************************************)
(* Reference table of the distribution families of the loop language and   *)
(* the trace specification that binds Polar's distribution classes to it.  *)
(*                                                                         *)
(* Numbers are arbitrary fractions [n |-> Z, d |-> Z] (d > 0, not          *)
(* normalised; equality by cross-multiplication), built on the big         *)
(* integers of Exact.                                                      *)
(*                                                                         *)
(* Moment(dist, k) is the k-th raw moment:                                 *)
(*   discrete families    the defining sum over the support                *)
(*   continuous families  the family's moment recurrence (integration by   *)
(*                        parts of the defining integral):                 *)
(*     normal(mu, s2)       m_k = mu m_{k-1} + (k-1) s2 m_{k-2}            *)
(*     uniform(a, b)        m_k = (sum_{i<=k} a^i b^{k-i}) / (k+1)         *)
(*     exponential(lambda)  m_k = (k / lambda) m_{k-1}                     *)
(*     gamma(shape, scale)  m_k = scale (shape + k - 1) m_{k-1}            *)
(*     beta(a, b, scale)    m_k = scale (a+k-1)/(a+b+k-1) m_{k-1}          *)
(*     laplace(mu, b)       central moments k! b^k (k even), 0 (k odd);    *)
(*                          raw moments by the binomial theorem            *)
(*     truncnormal(mu, s2, a, b): moments involve erf -- not decided,     *)
(*         except the mean of a truncation symmetric about mu (= mu);       *)
(*                          support [a, b] and sampling are                *)
(* TLA+ cannot integrate: the recurrences are the stated reference for the *)
(* continuous families (assumption of the check).  Support, discreteness   *)
(* and the domain of the moment generating function are tabulated too.     *)
(*                                                                         *)
(* Lemma checked by TLC on the batch's parameter grid (AffineOK): for the  *)
(* location/scale families the moments of loc + scale * X0 computed by     *)
(* the binomial theorem from the standard member X0 equal the moments of   *)
(* the family member itself -- the rewriting DistTransformer performs.     *)
(***************************************************************************)
EXTENDS Integers, Sequences, FiniteSets, FiniteSetsExt, TLC, Json, IOUtils

Batch == JsonDeserialize(IOEnv.BATCH_FILE)
Base == 10000
D == 2
INSTANCE Exact

\* ---- fractions
Q(n, d) == [n |-> n, d |-> d]
QInt(i) == Q(ZFromInt(i), ZFromInt(1))
QZero == QInt(0)
QOne == QInt(1)
QAdd(x, y) == Q(ZAdd(ZMul(x.n, y.d), ZMul(y.n, x.d)), ZMul(x.d, y.d))
QNeg(x) == Q(ZNeg(x.n), x.d)
QSub(x, y) == QAdd(x, QNeg(y))
QMul(x, y) == Q(ZMul(x.n, y.n), ZMul(x.d, y.d))
QInv(x) == IF ZSign(x.n) < 0 THEN Q(ZNeg(x.d), ZNeg(x.n)) ELSE Q(x.d, x.n)      \* x # 0
QDiv(x, y) == QMul(x, QInv(y))
QEq(x, y) == ZMul(x.n, y.d) = ZMul(y.n, x.d)
QCmp(x, y) == ZCmp(ZMul(x.n, y.d), ZMul(y.n, x.d))       \* denominators are positive
RECURSIVE QPow(_, _)
QPow(x, e) == IF e = 0 THEN QOne ELSE QMul(x, QPow(x, e - 1))
RECURSIVE Fact(_)
Fact(i) == IF i <= 1 THEN 1 ELSE i * Fact(i - 1)
RECURSIVE Binom(_, _)
Binom(nn, k) == IF k = 0 \/ k = nn THEN 1 ELSE Binom(nn - 1, k - 1) + Binom(nn - 1, k)

QSum(f(_), lo, hi) == FoldSet(LAMBDA i, acc : QAdd(acc, f(i)), QZero, lo..hi)

\* ---- the families.  d = [f |-> name, ...parameters as fractions...]
RECURSIVE Moment(_, _)
Moment(d, k) ==
    IF k = 0 THEN QOne
    ELSE CASE d.f = "bernoulli"   -> d.p
           [] d.f = "categorical" -> QSum(LAMBDA i : QMul(QPow(QInt(i - 1), k), d.ps[i]), 1, Len(d.ps))
           [] d.f = "duniform"    -> QDiv(QSum(LAMBDA v : QPow(QInt(v), k), d.lo, d.hi), QInt(d.hi - d.lo + 1))
           [] d.f = "normal"      -> QAdd(QMul(d.mu, Moment(d, k - 1)),
                                          IF k >= 2 THEN QMul(QMul(QInt(k - 1), d.s2), Moment(d, k - 2)) ELSE QZero)
           [] d.f = "uniform"     -> QDiv(QSum(LAMBDA i : QMul(QPow(d.a, i), QPow(d.b, k - i)), 0, k), QInt(k + 1))
           [] d.f = "exponential" -> QMul(QDiv(QInt(k), d.lambda), Moment(d, k - 1))
           [] d.f = "gamma"       -> QMul(QMul(d.scale, QAdd(d.shape, QInt(k - 1))), Moment(d, k - 1))
           [] d.f = "beta"        -> QMul(QMul(d.scale, QDiv(QAdd(d.a, QInt(k - 1)), QAdd(QAdd(d.a, d.b), QInt(k - 1)))),
                                          Moment(d, k - 1))
           \* truncated normal: only the mean of a truncation that is symmetric about mu is decided (= mu)
           [] d.f = "truncnormal" -> d.mu
           [] d.f = "laplace"     -> QSum(LAMBDA j : IF j % 2 = 1 THEN QZero
                                                     ELSE QMul(QMul(QInt(Binom(k, j)), QPow(d.mu, k - j)),
                                                               QMul(QInt(Fact(j)), QPow(d.b, j))), 0, k)

Discrete(d) == d.f \in {"bernoulli", "categorical", "duniform"}

\* support as [lo, hi] with optional infinite ends; a reported support must CONTAIN it
SupLo(d) == CASE d.f \in {"bernoulli", "categorical"} -> [inf |-> FALSE, v |-> QZero]
              [] d.f = "duniform" -> [inf |-> FALSE, v |-> QInt(d.lo)]
              [] d.f \in {"normal", "laplace"} -> [inf |-> TRUE, v |-> QZero]
              [] d.f \in {"uniform", "truncnormal"} -> [inf |-> FALSE, v |-> d.a]
              [] d.f \in {"exponential", "gamma", "beta"} -> [inf |-> FALSE, v |-> QZero]
SupHi(d) == CASE d.f = "bernoulli" -> [inf |-> FALSE, v |-> QOne]
              [] d.f = "categorical" -> [inf |-> FALSE, v |-> QInt(Len(d.ps) - 1)]
              [] d.f = "duniform" -> [inf |-> FALSE, v |-> QInt(d.hi)]
              [] d.f \in {"normal", "laplace", "exponential", "gamma"} -> [inf |-> TRUE, v |-> QZero]
              [] d.f \in {"uniform", "truncnormal"} -> [inf |-> FALSE, v |-> d.b]
              [] d.f = "beta" -> [inf |-> FALSE, v |-> d.scale]
InSupport(d, x) == /\ (SupLo(d).inf \/ QCmp(x, SupLo(d).v) >= 0)
                   /\ (SupHi(d).inf \/ QCmp(x, SupHi(d).v) <= 0)

\* does E[exp(t X)] exist?
MgfExistsAt(d, t) ==
    CASE d.f = "exponential" -> QCmp(t, d.lambda) < 0
      [] d.f = "gamma"       -> QCmp(QMul(t, d.scale), QOne) < 0
      [] d.f = "laplace"     -> QCmp(QMul(t, d.b), QOne) < 0 /\ QCmp(QMul(t, d.b), QInt(-1)) > 0
      [] OTHER               -> TRUE

\* loc + scale * X : moments by the binomial theorem
AffineMoment(d0, loc, scale, k) ==
    QSum(LAMBDA j : QMul(QMul(QInt(Binom(k, j)), QPow(loc, k - j)), QMul(QPow(scale, j), Moment(d0, j))), 0, k)

----------------------------------------------------------------------------
(* expansions from cumulants k_1..k_K (sigma^2 = k_2, sigma rational)      *)

\* raw moment of order j from the cumulants: sum over the set partitions of {1..j} of the product of k_|B|
MaxUpTo(f, i) == IF i = 0 THEN 0 ELSE Max({f[t] : t \in 1..i})
RGS(j) == {f \in [1..j -> 1..j] : \A i \in 1..j : f[i] <= MaxUpTo(f, i - 1) + 1}
BlockSize(f, b) == Cardinality({i \in DOMAIN f : f[i] = b})
RawFromCumulants(ks, j) ==
    IF j = 0 THEN QOne
    ELSE FoldSet(LAMBDA f, acc : QAdd(acc, FoldSet(LAMBDA b, pr : QMul(pr, ks[BlockSize(f, b)]), QOne, 1..MaxUpTo(f, j))),
                 QZero, RGS(j))

\* Gram-Charlier: density = P(x) * normal density(mu, s2);  integral of x^j * density by the normal moments
GCMoment(g, j) ==
    LET nd == [f |-> "normal", mu |-> g.cumulants[1], s2 |-> g.cumulants[2]]
    IN  FoldSet(LAMBDA t, acc : QAdd(acc, QMul(g.poly[t].c, Moment(nd, g.poly[t].e + j))), QZero, 1..Len(g.poly))
GCFails(g) ==
    LET K == Len(g.cumulants)
        bad == {j \in 0..K : ~QEq(GCMoment(g, j), RawFromCumulants(g.cumulants, j))}
    IN  IF bad = {} THEN <<>> ELSE <<[k |-> -1, clause |-> "gram-charlier", orders |-> bad]>>

\* Cornish-Fisher: the standard expansion of the standardised quantile w(z) in terms of
\* g1 = k3/sigma^3, g2 = k4/sigma^4, g3 = k5/sigma^5 (Cornish & Fisher 1937; Abramowitz-Stegun 26.2.49):
\*   z + g1 (z^2-1)/6 + g2 (z^3-3z)/24 - g1^2 (2z^3-5z)/36
\*     + g3 (z^4-6z^2+3)/120 - g1 g2 (z^4-5z^2+2)/24 + g1^3 (12z^4-53z^2+17)/324
\* as a coefficient vector for z^0..z^4 (orders present according to the number of cumulants)
CFStandard(c) ==
    LET K == Len(c.cumulants)
        sg == c.sigma
        g(r) == IF K >= r THEN QMul(c.cumulants[r], QInv(QPow(sg, r))) ELSE QZero
        g1 == g(3)  g2 == g(4)  g3 == g(5)
        q(a, b) == Q(ZFromInt(a), ZFromInt(b))
        \* the expansion is truncated by order: bracket r is present when K >= r + 2
        b2(x) == IF K >= 4 THEN x ELSE QZero
        b3(x) == IF K >= 5 THEN x ELSE QZero
        c0 == QAdd(QMul(g1, q(-1, 6)),
                   b3(QAdd(QMul(g3, q(3, 120)), QAdd(QMul(QMul(g1, g2), q(-2, 24)), QMul(QPow(g1, 3), q(17, 324))))))
        c1 == QAdd(QOne, b2(QAdd(QMul(g2, q(-3, 24)), QMul(QPow(g1, 2), q(5, 36)))))
        c2 == QAdd(QMul(g1, q(1, 6)),
                   b3(QAdd(QMul(g3, q(-6, 120)), QAdd(QMul(QMul(g1, g2), q(5, 24)), QMul(QPow(g1, 3), q(-53, 324))))))
        c3 == b2(QAdd(QMul(g2, q(1, 24)), QMul(QPow(g1, 2), q(-2, 36))))
        c4 == b3(QAdd(QMul(g3, q(1, 120)), QAdd(QMul(QMul(g1, g2), q(-1, 24)), QMul(QPow(g1, 3), q(12, 324)))))
    IN  <<c0, c1, c2, c3, c4>>
CFFails(c) ==
    LET std == CFStandard(c)
        got(e) == FoldSet(LAMBDA t, acc : IF c.poly[t].e = e THEN QAdd(acc, c.poly[t].c) ELSE acc, QZero, 1..Len(c.poly))
        bad == {e \in 0..4 : ~QEq(got(e), std[e + 1])} \cup {c.poly[t].e : t \in {u \in 1..Len(c.poly) : c.poly[u].e > 4}}
    IN  (IF QEq(QMul(c.sigma, c.sigma), c.cumulants[2]) THEN <<>> ELSE <<[k |-> -1, clause |-> "sigma"]>>)
        \o (IF bad = {} THEN <<>> ELSE <<[k |-> -1, clause |-> "cornish-fisher", powers |-> bad]>>)

----------------------------------------------------------------------------
(* trace: one row per (distribution, order)                                *)
VARIABLES tid, k, fails, done
vars == <<tid, k, fails, done>>
Tr == Batch.traces[tid]

RowFails(kk) ==
    LET row == Tr.rows[kk + 1]
        d == Tr.dist
        m == Moment(d, kk)
        bad(name, got) == [k |-> kk, clause |-> name, want |-> m, got |-> got]
    IN  (IF "moment" \in DOMAIN row /\ ~QEq(row.moment, m) THEN <<bad("moment", row.moment)>> ELSE <<>>)
        \o (IF "mgf" \in DOMAIN row /\ ~QEq(row.mgf, m) THEN <<bad("mgf-derivative", row.mgf)>> ELSE <<>>)
        \o (IF "cf" \in DOMAIN row /\ ~QEq(row.cf, m) THEN <<bad("cf-derivative", row.cf)>> ELSE <<>>)

HeadFails ==
    LET d == Tr.dist
        o == Tr.obs
    IN  (IF o.discrete # Discrete(d) THEN <<[k |-> -1, clause |-> "discrete"]>> ELSE <<>>)
        \o (IF \E i \in 1..Len(o.supportLo) :
                  \/ (~o.supportLo[i].inf /\ (SupLo(d).inf \/ QCmp(o.supportLo[i].v, SupLo(d).v) > 0))
                  \/ (~o.supportHi[i].inf /\ (SupHi(d).inf \/ QCmp(o.supportHi[i].v, SupHi(d).v) < 0))
            THEN <<[k |-> -1, clause |-> "support"]>> ELSE <<>>)
        \o (IF \E i \in 1..Len(o.mgfAt) : o.mgfAt[i].exists # MgfExistsAt(d, o.mgfAt[i].t)
            THEN <<[k |-> -1, clause |-> "mgf-exists"]>> ELSE <<>>)
        \o (IF \E i \in 1..Len(o.samples) : ~InSupport(d, o.samples[i])
            THEN <<[k |-> -1, clause |-> "sample-outside-support",
                    x |-> o.samples[CHOOSE i \in 1..Len(o.samples) : ~InSupport(d, o.samples[i])]]>> ELSE <<>>)
        \o (IF "affine" \in DOMAIN Tr /\ \E kk \in 0..Tr.affine.K :
                  ~QEq(AffineMoment(Tr.affine.d0, Tr.affine.loc, Tr.affine.scale, kk), Moment(d, kk))
            THEN <<[k |-> -1, clause |-> "affine-lemma"]>> ELSE <<>>)

ExpansionFails == (IF "gc" \in DOMAIN Tr THEN GCFails(Tr.gc) ELSE <<>>) \o (IF "cf" \in DOMAIN Tr THEN CFFails(Tr.cf) ELSE <<>>)
IsExpansion == "gc" \in DOMAIN Tr \/ "cf" \in DOMAIN Tr

Init == /\ tid \in 1..Len(Batch.traces) /\ k = 0
        /\ fails = (IF IsExpansion THEN ExpansionFails ELSE HeadFails \o RowFails(0))
        /\ done = FALSE
LastRow == IF IsExpansion THEN 0 ELSE Len(Tr.rows) - 1
Step == /\ ~done /\ k < LastRow /\ k' = k + 1 /\ fails' = fails \o RowFails(k + 1) /\ UNCHANGED <<tid, done>>
Finish == /\ ~done /\ k = LastRow
          /\ JsonSerialize(IOEnv.OUT_DIR \o "/" \o Tr.id \o ".json", [id |-> Tr.id, rows |-> k + 1, fails |-> fails])
          /\ done' = TRUE /\ UNCHANGED <<tid, k, fails>>
Next == Step \/ Finish
Spec == Init /\ [][Next]_vars
TypeOK == k \in 0..LastRow
=============================================================================
