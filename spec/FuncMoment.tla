----------------------------- MODULE FuncMoment -----------------------------
(***************************************************************************)
(* Moments of Sin / Cos / Exp of a finitely supported random variable.     *)
(*                                                                         *)
(* For X with support points x_j (integers) and probabilities p_j,         *)
(*    E[X^a sin^b(X) cos^c(X)] = sum_j p_j x_j^a sin(x_j)^b cos(x_j)^c     *)
(*    E[X^a exp(c X)]          = sum_j p_j x_j^a exp(x_j)^c                *)
(* are finite sums of products of the transcendental constants sin(x_j),   *)
(* cos(x_j), exp(x_j).  The batch supplies rational ENCLOSURES [lo, hi] of *)
(* those constants (30 digits, computed outside; trusted), this module     *)
(* evaluates the sums in exact interval arithmetic over fractions, and a   *)
(* value reported by the implementation must lie in the resulting interval *)
(* widened by the rounding the implementation documents (tol, relative to  *)
(* the size of the true value).                                            *)
(* A reported value outside the interval is wrong; an exception is a       *)
(* refusal (recorded, judged by the harness).                              *)
(***************************************************************************)
EXTENDS Integers, Sequences, FiniteSets, FiniteSetsExt, TLC, Json, IOUtils

Batch == JsonDeserialize(IOEnv.BATCH_FILE)
Base == 10000
D == 2
INSTANCE Exact

Q(n, d) == [n |-> n, d |-> d]
QInt(i) == Q(ZFromInt(i), ZFromInt(1))
QZero == QInt(0)
QOne == QInt(1)
QAdd(x, y) == Q(ZAdd(ZMul(x.n, y.d), ZMul(y.n, x.d)), ZMul(x.d, y.d))
QNeg(x) == Q(ZNeg(x.n), x.d)
QSub(x, y) == QAdd(x, QNeg(y))
QMul(x, y) == Q(ZMul(x.n, y.n), ZMul(x.d, y.d))
QCmp(x, y) == ZCmp(ZMul(x.n, y.d), ZMul(y.n, x.d))
QMin(S) == CHOOSE x \in S : \A y \in S : QCmp(x, y) <= 0
QMax(S) == CHOOSE x \in S : \A y \in S : QCmp(x, y) >= 0
QAbs(x) == IF ZSign(x.n) < 0 THEN QNeg(x) ELSE x

\* intervals [lo, hi]
I(lo, hi) == [lo |-> lo, hi |-> hi]
IPoint(x) == I(x, x)
IAdd(x, y) == I(QAdd(x.lo, y.lo), QAdd(x.hi, y.hi))
IMul(x, y) == LET ps == {QMul(x.lo, y.lo), QMul(x.lo, y.hi), QMul(x.hi, y.lo), QMul(x.hi, y.hi)}
              IN  I(QMin(ps), QMax(ps))
RECURSIVE IPow(_, _)
IPow(x, e) == IF e = 0 THEN IPoint(QOne) ELSE IMul(x, IPow(x, e - 1))

VARIABLES tid, fails, done
vars == <<tid, fails, done>>
Tr == Batch.traces[tid]

\* enclosure of the moment for exponents (a, b, c); kind "trig": sin^b cos^c, kind "exp": exp^c
Term(j, a, b, c, kind) ==
    LET pt == Tr.points[j]
        xa == IPow(IPoint(QInt(pt.x)), a)
        f  == IF kind = "trig" THEN IMul(IPow(pt.sin, b), IPow(pt.cos, c)) ELSE IPow(pt.exp, c)
    IN  IMul(IPoint(pt.p), IMul(xa, f))
MomentI(a, b, c, kind) ==
    FoldSet(LAMBDA j, acc : IAdd(acc, Term(j, a, b, c, kind)), IPoint(QZero), 1..Len(Tr.points))

ClaimFails ==
    FoldSet(LAMBDA q, acc :
               LET cl == Tr.claims[q]
                   iv == MomentI(cl.a, cl.b, cl.c, cl.kind)
                   \* the documented rounding keeps 20 significant digits: the slack is relative to the size of the true value
                   \* (an absolute term would accept 0 for every tiny moment)
                   slack == QMul(QMax({QAbs(iv.lo), QAbs(iv.hi)}), cl.tol)
               IN  IF QCmp(cl.value, QSub(iv.lo, slack)) >= 0 /\ QCmp(cl.value, QAdd(iv.hi, slack)) <= 0
                   THEN acc ELSE Append(acc, [claim |-> q, lo |-> iv.lo, hi |-> iv.hi]),
            <<>>, 1..Len(Tr.claims))

\* E[exp(c X)] exists iff c lies in the domain of the moment generating function (same table as spec/Dists.tla);
\* a request outside the domain must be refused, one inside must not be refused for lack of existence
MgfExists(fam, ps, c) ==
    CASE fam = "exponential" -> QCmp(c, ps[1]) < 0                                   \* c < lambda
      [] fam = "gamma"       -> QCmp(QMul(c, ps[2]), QOne) < 0                       \* c * scale < 1
      [] fam = "laplace"     -> QCmp(QMul(QAbs(c), ps[2]), QOne) < 0                 \* |c| b < 1
      [] OTHER               -> TRUE
ExistFails ==
    IF "exists" \notin DOMAIN Tr THEN <<>>
    ELSE FoldSet(LAMBDA q, acc :
                    LET cl == Tr.exists[q]
                    IN  IF cl.answered = MgfExists(cl.fam, cl.ps, cl.c) THEN acc
                        ELSE Append(acc, [exists_claim |-> q, spec_exists |-> MgfExists(cl.fam, cl.ps, cl.c)]),
                 <<>>, 1..Len(Tr.exists))

Init == /\ tid \in 1..Len(Batch.traces) /\ fails = ClaimFails \o ExistFails /\ done = FALSE
Finish == /\ ~done
          /\ JsonSerialize(IOEnv.OUT_DIR \o "/" \o Tr.id \o ".json", [id |-> Tr.id, claims |-> Len(Tr.claims), fails |-> fails])
          /\ done' = TRUE /\ UNCHANGED <<tid, fails>>
Next == Finish
Spec == Init /\ [][Next]_vars
TypeOK == done \in BOOLEAN
=============================================================================
