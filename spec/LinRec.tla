------------------------------- MODULE LinRec -------------------------------
(***************************************************************************)
(* Linear recurrence systems  x(n+1) = A x(n) + b,  x(0) = v  over exact   *)
(* rationals, and the trace specification that binds the closed forms of   *)
(* Polar's recurrence solvers to them.                                     *)
(*                                                                         *)
(* A batch (JSON, env BATCH_FILE) holds traces [id, A, b, v, N, steps];    *)
(* steps[n+1] is a sequence of claims about x(n):                          *)
(*    [i, p, q, exact]        component i equals p/q                       *)
(*    [i, lo, hi, exact]      component i lies in [lo, hi] (p/q pairs)     *)
(* `exact' is the solver's own flag: a value flagged exact must be equal,  *)
(* a value flagged rounded may deviate by at most tol (given per claim).   *)
(***************************************************************************)
EXTENDS Integers, Sequences, FiniteSets, FiniteSetsExt, TLC, Json, IOUtils

Batch == JsonDeserialize(IOEnv.BATCH_FILE)
Base == 10000
D == Batch.D
INSTANCE Exact

VARIABLES tid, n, x, fails, done
vars == <<tid, n, x, fails, done>>
Tr == Batch.traces[tid]
K == Len(Tr.v)

RECURSIVE Dot(_, _, _)
Dot(row, vec, j) == IF j > Len(vec) THEN RZero ELSE RAdd(RMul(row[j], vec[j]), Dot(row, vec, j + 1))
MatVec(A, b, vec) == [i \in 1..Len(vec) |-> RAdd(Dot(A[i], vec, 1), b[i])]

ClaimFails(cls, nn, vec) ==
    LET bad == {c \in 1..Len(cls) :
                  LET cl == cls[c] IN
                  IF "lo" \in DOMAIN cl
                  THEN ~(RCmpFrac(vec[cl.i], cl.lo.p, cl.lo.q) >= 0 /\ RCmpFrac(vec[cl.i], cl.hi.p, cl.hi.q) <= 0)
                  ELSE ~REqFrac(vec[cl.i], cl.p, cl.q)}
    IN  FoldSet(LAMBDA c, acc : Append(acc, [n |-> nn, c |-> c, i |-> cls[c].i, got |-> vec[cls[c].i]]), <<>>, bad)

Init == /\ tid \in 1..Len(Batch.traces)
        /\ n = 0
        /\ x = Tr.v
        /\ fails = ClaimFails(Tr.steps[1], 0, Tr.v)
        /\ done = FALSE

Step == /\ ~done /\ n < Tr.N
        /\ x' = MatVec(Tr.A, Tr.b, x)
        /\ n' = n + 1
        /\ fails' = fails \o ClaimFails(Tr.steps[n + 2], n + 1, x')
        /\ UNCHANGED <<tid, done>>

Finish == /\ ~done /\ n = Tr.N
          /\ JsonSerialize(IOEnv.OUT_DIR \o "/" \o Tr.id \o ".json", [id |-> Tr.id, steps |-> n, fails |-> fails])
          /\ done' = TRUE
          /\ UNCHANGED <<tid, n, x, fails>>

Next == Step \/ Finish
Spec == Init /\ [][Next]_vars
TypeOK == n \in 0..Tr.N /\ Len(x) = K
=============================================================================
