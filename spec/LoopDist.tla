------------------------------ MODULE LoopDist ------------------------------
(***************************************************************************)
(* Meaning of Polar's loop language, as the lifted Markov chain on stores. *)
(*                                                                         *)
(* A store is a tuple of scalars (Exact!S*, dual numbers over exact        *)
(* rationals) indexed by variable number.  A distribution is a function    *)
(* store -> weight with finite domain.  One loop iteration maps a          *)
(* distribution to a distribution:                                         *)
(*    stores that satisfy the guard run the body (statements in order,     *)
(*    first matching if/elif/else branch, every right-hand side reads the  *)
(*    store as it is when the statement starts, draws and probabilistic    *)
(*    choices are independent), stores that do not satisfy it are frozen.  *)
(*                                                                         *)
(* The same abstract syntax describes source programs and every            *)
(* intermediate program of Polar's normalisation: an assignment carries a  *)
(* condition c and a default variable d, "x = rhs | c : d" assigns the     *)
(* value of d when c is false (source assignments have c = true, d = x).   *)
(*                                                                         *)
(* Abstract syntax (records; they arrive as JSON):                         *)
(*   poly  : sequence of terms [c |-> scalar, e |-> <<<<var, exp>>, ...>>] *)
(*   cond  : [t |-> "true"] | [t |-> "false"]                              *)
(*         | [t |-> "atom", l |-> poly, op |-> cop, r |-> poly]            *)
(*         | [t |-> "and"|"or", a |-> cond, b |-> cond]                    *)
(*         | [t |-> "not", a |-> cond]                                     *)
(*   stmt  : [t |-> "assign", v, br |-> <<[p |-> scalar, e |-> poly]>>,    *)
(*            c |-> cond, d |-> var]                                       *)
(*         | [t |-> "draw", v, dist |-> dist, c |-> cond, d |-> var]       *)
(*         | [t |-> "if", cs |-> <<cond>>, bs |-> <<stmts>>, el |-> stmts] *)
(*         | [t |-> "func", v, arg, argc, tab, miss, c, d]  v = f(argument) *)
(*            with f given as a finite table (see RunStmt)                 *)
(*         | [t |-> "simul", items |-> <<assign or draw>>]  simultaneous    *)
(*            assignment: every right-hand side reads the store as it was  *)
(*            before the statement                                         *)
(*   dist  : [f |-> "bernoulli", p] | [f |-> "categorical", ps]            *)
(*         | [f |-> "duniform", lo, hi]  (native integers)                 *)
(*         | [f |-> "finite", xs |-> <<[x |-> scalar, p |-> scalar]>>]     *)
(*   prog  : [s0 |-> store, init |-> stmts, guard |-> cond, body |-> stmts]*)
(***************************************************************************)
EXTENDS Integers, Sequences, FiniteSets, FiniteSetsExt, TLC

CONSTANTS Base, D
INSTANCE Exact

----------------------------------------------------------------------------
(* expressions and conditions *)

RECURSIVE MonoVal(_, _, _)
MonoVal(e, st, i) ==
    IF i > Len(e) THEN SOne
    ELSE SMul(SPow(st[e[i][1]], e[i][2]), MonoVal(e, st, i + 1))

RECURSIVE EvalFrom(_, _, _)
EvalFrom(p, st, i) ==
    IF i > Len(p) THEN SZero
    ELSE SAdd(SMul(p[i].c, MonoVal(p[i].e, st, 1)), EvalFrom(p, st, i + 1))
Eval(p, st) == EvalFrom(p, st, 1)

Cop(op, c) ==      \* c = sign of (left - right)
    CASE op = "==" -> c = 0
      [] op = "/=" -> c # 0
      [] op = "<"  -> c < 0
      [] op = ">"  -> c > 0
      [] op = "<=" -> c <= 0
      [] op = ">=" -> c >= 0

RECURSIVE Holds(_, _)
Holds(c, st) ==
    CASE c.t = "true"  -> TRUE
      [] c.t = "false" -> FALSE
      [] c.t = "atom"  -> Cop(c.op, SCmp(Eval(c.l, st), Eval(c.r, st)))
      [] c.t = "and"   -> Holds(c.a, st) /\ Holds(c.b, st)
      [] c.t = "or"    -> Holds(c.a, st) \/ Holds(c.b, st)
      [] c.t = "not"   -> ~Holds(c.a, st)

----------------------------------------------------------------------------
(* distributions with finite support: sequence of [x |-> value, p |-> probability] *)

DistOutcomes(d) ==
    CASE d.f = "bernoulli"   -> << [x |-> SOne, p |-> d.p], [x |-> SZero, p |-> SSub(SOne, d.p)] >>
      [] d.f = "categorical" -> [i \in 1..Len(d.ps) |-> [x |-> SFromInt(i - 1), p |-> d.ps[i]]]
      [] d.f = "duniform"    -> [i \in 1..(d.hi - d.lo + 1) |->
                                   [x |-> SFromInt(d.lo + i - 1),
                                    p |-> SDivSmall(SOne, d.hi - d.lo + 1)]]
      [] d.f = "finite"      -> d.xs

----------------------------------------------------------------------------
(* one statement / a statement list from one weighted store o = [s, w] *)

Upd(o, v, x, p) == [s |-> [o.s EXCEPT ![v] = x], w |-> SMul(o.w, p)]

RECURSIVE FirstTrue(_, _, _)
FirstTrue(cs, st, i) ==       \* index of the first condition that holds, 0 if none
    IF i > Len(cs) THEN 0 ELSE IF Holds(cs[i], st) THEN i ELSE FirstTrue(cs, st, i + 1)

NonZero(seq) == SelectSeq(seq, LAMBDA o : ~SIsZero(o.w))

\* one item of a simultaneous assignment: reads `old', writes into o
ItemOuts(item, old, o) ==
    IF item.t = "assign"
    THEN NonZero([i \in 1..Len(item.br) |-> Upd(o, item.v, Eval(item.br[i].e, old), item.br[i].p)])
    ELSE LET outs == DistOutcomes(item.dist)
         IN  NonZero([i \in 1..Len(outs) |-> Upd(o, item.v, outs[i].x, outs[i].p)])
RECURSIVE FlatItem(_, _, _, _)
FlatItem(item, old, outs, j) ==
    IF j > Len(outs) THEN <<>> ELSE ItemOuts(item, old, outs[j]) \o FlatItem(item, old, outs, j + 1)
RECURSIVE SimulFrom(_, _, _, _)
SimulFrom(items, i, old, outs) ==
    IF i > Len(items) THEN outs ELSE SimulFrom(items, i + 1, old, FlatItem(items[i], old, outs, 1))

RECURSIVE RunStmt(_, _)
RECURSIVE RunStmts(_, _, _)
RECURSIVE FlatOuts(_, _, _)

RunStmt(stmt, o) ==
    CASE stmt.t = "assign" ->
            IF Holds(stmt.c, o.s)
            THEN NonZero([i \in 1..Len(stmt.br) |-> Upd(o, stmt.v, Eval(stmt.br[i].e, o.s), stmt.br[i].p)])
            ELSE << Upd(o, stmt.v, o.s[stmt.d], SOne) >>
      [] stmt.t = "draw" ->
            IF Holds(stmt.c, o.s)
            THEN LET outs == DistOutcomes(stmt.dist)
                 IN  NonZero([i \in 1..Len(outs) |-> Upd(o, stmt.v, outs[i].x, outs[i].p)])
            ELSE << Upd(o, stmt.v, o.s[stmt.d], SOne) >>
      [] stmt.t = "if" ->
            LET j == FirstTrue(stmt.cs, o.s, 1)
            IN  IF j > 0 THEN RunStmts(stmt.bs[j], 1, <<o>>) ELSE RunStmts(stmt.el, 1, <<o>>)
      [] stmt.t = "simul" -> SimulFrom(stmt.items, 1, o.s, <<o>>)
      [] stmt.t = "func" ->
            \* v = Sin | Cos | Exp (argument): the function is given by a table of (argument, value) pairs supplied
            \* with the program (rational approximations of the transcendental values); an argument outside the
            \* table maps to the table's `miss' value, and a `supp' claim on the argument keeps that from going
            \* unnoticed
            IF Holds(stmt.c, o.s)
            THEN LET a == IF stmt.arg = 0 THEN stmt.argc ELSE o.s[stmt.arg]
                     hit == {j \in 1..Len(stmt.tab) : stmt.tab[j].x = a}
                 IN  << Upd(o, stmt.v, IF hit = {} THEN stmt.miss ELSE stmt.tab[CHOOSE j \in hit : TRUE].y, SOne) >>
            ELSE << Upd(o, stmt.v, o.s[stmt.d], SOne) >>

FlatOuts(stmt, outs, j) ==
    IF j > Len(outs) THEN <<>> ELSE RunStmt(stmt, outs[j]) \o FlatOuts(stmt, outs, j + 1)

RunStmts(stmts, i, outs) ==
    IF i > Len(stmts) THEN outs ELSE RunStmts(stmts, i + 1, FlatOuts(stmts[i], outs, 1))

\* every store that exists at some point during the execution (after each statement)
RECURSIVE SeenStmt(_, _)
RECURSIVE SeenStmts(_, _, _)
SeenStmt(stmt, o) ==
    IF stmt.t = "if"
    THEN LET j == FirstTrue(stmt.cs, o.s, 1)
         IN  IF j > 0 THEN SeenStmts(stmt.bs[j], 1, <<o>>) ELSE SeenStmts(stmt.el, 1, <<o>>)
    ELSE {x.s : x \in Range(RunStmt(stmt, o))}
SeenStmts(stmts, i, outs) ==
    IF i > Len(stmts) THEN {}
    ELSE UNION {SeenStmt(stmts[i], outs[j]) : j \in 1..Len(outs)}
         \cup SeenStmts(stmts, i + 1, FlatOuts(stmts[i], outs, 1))

----------------------------------------------------------------------------
(* distributions over stores                                               *)
(*                                                                         *)
(* A distribution is a finite set of records [s |-> store, w |-> weight]   *)
(* in which every store occurs once.  Weighted outcomes are merged through *)
(* a trie keyed by the store's components (one level per variable): TLC    *)
(* looks a key up in a function by scanning its domain, so a flat          *)
(* store -> weight function costs |support| store comparisons per          *)
(* insertion, while a trie costs only the sum of the fan-outs.             *)

RECURSIVE TrieAdd(_, _, _, _)
TrieAdd(t, key, i, w) ==
    IF i > Len(key) THEN SAdd(t, w)
    ELSE LET k == key[i]
         IN  IF k \in DOMAIN t
             THEN [t EXCEPT ![k] = TrieAdd(@, key, i + 1, w)]
             ELSE t @@ (k :> TrieAdd(IF i = Len(key) THEN SZero ELSE <<>>, key, i + 1, w))

RECURSIVE TrieItems(_, _, _, _)
TrieItems(t, i, len, prefix) ==
    IF i > len THEN {[s |-> prefix, w |-> t]}
    ELSE UNION {TrieItems(t[k], i + 1, len, Append(prefix, k)) : k \in DOMAIN t}

EmptyTrie(len) == IF len = 0 THEN SZero ELSE <<>>

\* fold a sequence of weighted stores (scaled by w0) into a trie
RECURSIVE TrieAddOuts(_, _, _, _)
TrieAddOuts(t, outs, j, w0) ==
    IF j > Len(outs) THEN t
    ELSE TrieAddOuts(TrieAdd(t, outs[j].s, 1, SMul(w0, outs[j].w)), outs, j + 1, w0)

Point(st) == [s |-> st, w |-> SOne]
Stores(dist) == {r.s : r \in dist}

InitDist(P) ==
    LET outs == RunStmts(P.init, 1, <<Point(P.s0)>>)
    IN  TrieItems(TrieAddOuts(EmptyTrie(Len(P.s0)), outs, 1, SOne), 1, Len(P.s0), <<>>)

IterOuts(P, st) == IF Holds(P.guard, st) THEN RunStmts(P.body, 1, <<Point(st)>>) ELSE <<Point(st)>>

Iter(P, dist) ==
    LET nv == Len(P.s0)
        t  == FoldSet(LAMBDA r, acc : TrieAddOuts(acc, IterOuts(P, r.s), 1, r.w), EmptyTrie(nv), dist)
    IN  TrieItems(t, 1, nv, <<>>)

SeenInit(P) == {P.s0} \cup SeenStmts(P.init, 1, <<Point(P.s0)>>)
SeenIter(P, dist) ==
    UNION {IF Holds(P.guard, r.s) THEN SeenStmts(P.body, 1, <<Point(r.s)>>) ELSE {r.s} : r \in dist}

----------------------------------------------------------------------------
(* functionals of a distribution *)

Moment(p, dist) == FoldSet(LAMBDA r, acc : SAdd(acc, SMul(r.w, Eval(p, r.s))), SZero, dist)
Mass(dist) == FoldSet(LAMBDA r, acc : SAdd(acc, r.w), SZero, dist)
Prob(c, dist) == FoldSet(LAMBDA r, acc : IF Holds(c, r.s) THEN SAdd(acc, r.w) ELSE acc, SZero, dist)
\* E[p ; c] = E[p * 1{c}]
MomentOn(p, c, dist) ==
    FoldSet(LAMBDA r, acc : IF Holds(c, r.s) THEN SAdd(acc, SMul(r.w, Eval(p, r.s))) ELSE acc, SZero, dist)
\* k-th central moment of the random variable p(store), straight from the definition
Central(p, k, dist) ==
    LET mu == Moment(p, dist)
    IN  FoldSet(LAMBDA r, acc : SAdd(acc, SMul(r.w, SPow(SSub(Eval(p, r.s), mu), k))), SZero, dist)
\* raw moment of order j of p(store)
RawMoment(p, j, dist) ==
    FoldSet(LAMBDA r, acc : SAdd(acc, SMul(r.w, SPow(Eval(p, r.s), j))), SZero, dist)

Support(v, stores) == {st[v].a : st \in stores}

\* marginal on a tuple of variables (again a set of [s, w] with unique s)
Project(dist, vs) ==
    LET t == FoldSet(LAMBDA r, acc : TrieAdd(acc, [i \in 1..Len(vs) |-> r.s[vs[i]]], 1, r.w), EmptyTrie(Len(vs)), dist)
    IN  TrieItems(t, 1, Len(vs), <<>>)

----------------------------------------------------------------------------
(* moment-only continuous draws.  A continuous value cannot sit in a store; *)
(* what the analysis needs of a draw  z = Family(params(store))  that is    *)
(* not read afterwards is E[z^k | store], a polynomial in the parameters    *)
(* (same recurrences as spec/Dists.tla, here over the exact scalars):       *)
(*   normal(mu, s2), laplace(mu, b), uniform(a, b), exponential given by    *)
(*   its mean theta = 1/lambda, gamma(shape, scale)                         *)
RECURSIVE FactN(_)
FactN(i) == IF i <= 1 THEN 1 ELSE i * FactN(i - 1)
RECURSIVE BinomN(_, _)
BinomN(nn, k) == IF k = 0 \/ k = nn THEN 1 ELSE BinomN(nn - 1, k - 1) + BinomN(nn - 1, k)
RECURSIVE CMoment(_, _, _)
CMoment(fam, ps, k) ==
    IF k = 0 THEN SOne
    ELSE CASE fam = "normal" ->
                SAdd(SMul(ps[1], CMoment(fam, ps, k - 1)),
                     IF k >= 2 THEN SMul(SMul(SFromInt(k - 1), ps[2]), CMoment(fam, ps, k - 2)) ELSE SZero)
           [] fam = "exponential" -> SMul(SMul(SFromInt(k), ps[1]), CMoment(fam, ps, k - 1))
           [] fam = "gamma" -> SMul(SMul(ps[2], SAdd(ps[1], SFromInt(k - 1))), CMoment(fam, ps, k - 1))
           [] fam = "uniform" ->
                SDivSmall(FoldSet(LAMBDA i, acc : SAdd(acc, SMul(SPow(ps[1], i), SPow(ps[2], k - i))), SZero, 0..k), k + 1)
           [] fam = "laplace" ->
                FoldSet(LAMBDA j, acc : IF j % 2 = 1 THEN acc
                                        ELSE SAdd(acc, SMul(SMul(SFromInt(BinomN(k, j) * FactN(j)), SPow(ps[1], k - j)),
                                                            SPow(ps[2], j))), SZero, 0..k)
\* E[ m(store) * z^k ]  for z drawn from fam with parameters given by polynomials in the store
DrawMoment(fam, params, k, m, dist) ==
    FoldSet(LAMBDA r, acc :
               SAdd(acc, SMul(r.w, SMul(Eval(m, r.s), CMoment(fam, [j \in 1..Len(params) |-> Eval(params[j], r.s)], k)))),
            SZero, dist)

----------------------------------------------------------------------------
(* cumulants by the set-partition formula                                  *)
(*   kappa_k = sum over partitions pi of {1..k} of                         *)
(*             (-1)^(|pi|-1) (|pi|-1)!  prod_{B in pi} m_|B|               *)
(* partitions are enumerated as restricted growth strings                  *)

MaxUpTo(f, i) == IF i = 0 THEN 0 ELSE Max({f[j] : j \in 1..i})
RGS(k) == {f \in [1..k -> 1..k] : \A i \in 1..k : f[i] <= MaxUpTo(f, i - 1) + 1}
RECURSIVE Fact(_)
Fact(i) == IF i <= 1 THEN 1 ELSE i * Fact(i - 1)
BlockSize(f, b) == Cardinality({i \in DOMAIN f : f[i] = b})
Cumulant(p, k, dist) ==
    LET m == [j \in 1..k |-> RawMoment(p, j, dist)]
        term(f) == LET nb == MaxUpTo(f, k)
                       sgn == IF (nb - 1) % 2 = 0 THEN 1 ELSE -1
                       prod == FoldSet(LAMBDA b, acc : SMul(acc, m[BlockSize(f, b)]), SOne, 1..nb)
                   IN  SMul(SFromInt(sgn * Fact(nb - 1)), prod)
    IN  FoldSet(LAMBDA f, acc : SAdd(acc, term(f)), SZero, RGS(k))

=============================================================================
