------------------------------ MODULE ProgSpace ------------------------------
(***************************************************************************)
(* spec -> code: a bounded grammar of loop programs, enumerated by TLC,    *)
(* each with its exact moment sequences computed by the semantics          *)
(* (LoopDist).  Every program of the space is an initial state; the        *)
(* machine iterates it Steps times recording E[g] for the goal polynomials *)
(* and emits (program, sequences).  The harness renders the program as     *)
(* Polar source text, runs the analysis and compares every reported value  *)
(* with the emitted one.                                                   *)
(*                                                                         *)
(* Space: variables f (finitely valued), x, y; fixed initial block         *)
(* f = 0, x = 1, y = 2; guard in {true, f == 0}; body = any sequence of    *)
(* 1..MaxLen statements from Menu (below).  Denominator base D = 2.        *)
(***************************************************************************)
EXTENDS Integers, Sequences, FiniteSets, FiniteSetsExt, TLC, Json, IOUtils
CONSTANTS MaxLen, Steps
Base == 10000
D == 2
INSTANCE LoopDist

F == 1  X == 2  Y == 3
I(i) == SFromInt(i)
Half == [a |-> [s |-> 0, m |-> <<1>>, k |-> 1], b |-> RZero]
Quarter == [a |-> [s |-> 0, m |-> <<1>>, k |-> 2], b |-> RZero]
ThreeQ == [a |-> [s |-> 0, m |-> <<3>>, k |-> 2], b |-> RZero]
T(c, e) == [c |-> c, e |-> e]                      \* term
Var(v) == <<<<v, 1>>>>
Tt == [t |-> "true"]
Asg(v, poly) == [t |-> "assign", v |-> v, br |-> <<[p |-> SOne, e |-> poly]>>, c |-> Tt, d |-> v]
Choice(v, p1, e1, p2, e2) == [t |-> "assign", v |-> v, br |-> <<[p |-> p1, e |-> e1], [p |-> p2, e |-> e2]>>, c |-> Tt, d |-> v]
Atom(v, op, k) == [t |-> "atom", l |-> <<T(SOne, Var(v))>>, op |-> op, r |-> IF k = 0 THEN <<>> ELSE <<T(I(k), <<>>)>>]

Menu == <<
  [t |-> "draw", v |-> F, dist |-> [f |-> "bernoulli", p |-> Half], c |-> Tt, d |-> F],                   \* f = Bernoulli(1/2)
  Asg(F, <<T(I(1), <<>>), T(I(-1), Var(F))>>),                                                            \* f = 1 - f
  Choice(X, Half, <<T(SOne, Var(X)), T(I(1), <<>>)>>, Half, <<T(SOne, Var(X)), T(I(-1), <<>>)>>),         \* x = x + 1 {1/2} x - 1
  Asg(X, <<T(I(2), Var(X)), T(SOne, Var(F))>>),                                                           \* x = 2*x + f
  Asg(X, <<T(SOne, Var(X)), T(SOne, <<<<F, 1>>, <<Y, 1>>>>)>>),                                           \* x = x + f*y
  Asg(Y, <<T(SOne, Var(Y)), T(I(1), <<>>)>>),                                                             \* y = y + 1
  Choice(Y, Quarter, <<T(Half, Var(Y)), T(SOne, Var(F))>>, ThreeQ, <<T(SOne, Var(Y))>>),                  \* y = y/2 + f {1/4} y
  [t |-> "if", cs |-> <<Atom(F, "==", 0)>>, bs |-> <<<<Asg(X, <<T(SOne, Var(X)), T(I(2), <<>>)>>)>>>>,
     el |-> <<Asg(Y, <<T(SOne, Var(Y)), T(SOne, Var(X))>>)>>],                                            \* if f == 0: x = x + 2 else: y = y + x
  [t |-> "simul", items |-> <<Asg(X, <<T(SOne, Var(Y))>>), Asg(Y, <<T(SOne, Var(X))>>)>>],                \* x, y = y, x
  [t |-> "if", cs |-> <<Atom(F, "==", 1)>>, bs |-> <<<<Asg(F, <<>>), Asg(X, <<T(SOne, Var(X)), T(I(1), <<>>)>>)>>>>,
     el |-> <<>>]                                                                                         \* if f == 1: f = 0; x = x + 1
>>
Guards == << Tt, Atom(F, "==", 0) >>
Goals == << <<T(SOne, Var(X))>>, <<T(SOne, Var(Y))>>, <<T(SOne, <<<<F, 1>>, <<X, 1>>>>)>>, <<T(SOne, <<<<X, 2>>>>)>>,
            <<T(SOne, Var(F))>> >>

InitBlock == << Asg(F, <<>>), Asg(X, <<T(I(1), <<>>)>>), Asg(Y, <<T(I(2), <<>>)>>) >>
Bodies == UNION {[1..k -> 1..Len(Menu)] : k \in 1..MaxLen}
Prog(g, b) == [s0 |-> <<SZero, SZero, SZero>>, init |-> InitBlock, guard |-> Guards[g],
               body |-> [i \in 1..Len(b) |-> Menu[b[i]]]]

VARIABLES g, b, n, dist, hist
vars == <<g, b, n, dist, hist>>
GoalVals(d) == [i \in 1..Len(Goals) |-> Moment(Goals[i], d).a]
Init == /\ g \in 1..Len(Guards) /\ b \in Bodies /\ n = 0
        /\ dist = InitDist(Prog(g, b))
        /\ hist = <<GoalVals(dist)>>
Next == /\ n < Steps
        /\ dist' = Iter(Prog(g, b), dist)
        /\ hist' = Append(hist, GoalVals(dist'))
        /\ n' = n + 1
        /\ UNCHANGED <<g, b>>
Spec == Init /\ [][Next]_vars
MassOK == Mass(dist).a = ROne
Emit == IF n = Steps THEN PrintT("@@PROG " \o ToJson([guard |-> g, body |-> b, prog |-> Prog(g, b), vals |-> hist])) ELSE TRUE
=============================================================================
