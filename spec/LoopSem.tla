------------------------------- MODULE LoopSem -------------------------------
(***************************************************************************)
(* Path-level machine of the loop language: ONE execution, with the random *)
(* choices it resolves.  It is structured like the interpreter in          *)
(* simulation/simulator.py: the initial block is executed once, then one   *)
(* step per loop iteration; a step either stutters (guard false: the store *)
(* stays frozen) or executes the body, resolving every probabilistic       *)
(* choice and draw it meets.  A resolution is recorded as a sequence of    *)
(* choice events [i |-> index of the alternative taken (1-based, position  *)
(* in the statement's own list of alternatives), p |-> its probability].   *)
(*                                                                         *)
(* The outcome enumeration reuses the primitives of LoopDist (Eval, Holds, *)
(* DistOutcomes, first-true branch selection), so the two levels cannot    *)
(* drift apart; LiftOK below states the link: the weights of all paths     *)
(* that end in a store sum to that store's mass in LoopDist.               *)
(*                                                                         *)
(* Two uses, selected by the batch (env BATCH_FILE):                       *)
(*   mode "trace": every recorded run of the real simulator (its choice    *)
(*       events and the store after every iteration) must be a behaviour:  *)
(*       same alternatives offered, same probabilities, same successor.    *)
(*       After all runs of a program: runs pairwise distinct and their     *)
(*       weights, grouped by final store, equal LoopDist's distribution.   *)
(*   mode "gen": free-running machine; every behaviour of depth N is       *)
(*       printed (choice events + stores) so that the harness can replay   *)
(*       it into the simulator.                                            *)
(***************************************************************************)
EXTENDS Integers, Sequences, FiniteSets, FiniteSetsExt, TLC, Json, IOUtils

Batch == JsonDeserialize(IOEnv.BATCH_FILE)
Base == 10000
D == Batch.D
INSTANCE LoopDist

----------------------------------------------------------------------------
(* outcomes with their choice events: o = [s |-> store, w |-> weight, ch |-> events] *)

UpdC(o, v, x, p, i) == [s |-> [o.s EXCEPT ![v] = x], w |-> SMul(o.w, p), ch |-> Append(o.ch, [i |-> i, p |-> p])]
UpdD(o, v, x) == [s |-> [o.s EXCEPT ![v] = x], w |-> o.w, ch |-> o.ch]
NonZeroC(seq) == SelectSeq(seq, LAMBDA o : ~SIsZero(o.w))

\* a deterministic assignment (one alternative with probability 1) consumes no randomness
AssignOuts(stmt, old, o) ==
    IF Len(stmt.br) = 1 /\ stmt.br[1].p = SOne
    THEN << UpdD(o, stmt.v, Eval(stmt.br[1].e, old)) >>
    ELSE NonZeroC([i \in 1..Len(stmt.br) |-> UpdC(o, stmt.v, Eval(stmt.br[i].e, old), stmt.br[i].p, i)])
DrawOuts(stmt, o) ==
    LET outs == DistOutcomes(stmt.dist)
    IN  NonZeroC([i \in 1..Len(outs) |-> UpdC(o, stmt.v, outs[i].x, outs[i].p, i)])

RECURSIVE PathStmt(_, _)
RECURSIVE PathStmts(_, _, _)
RECURSIVE PathFlat(_, _, _)
RECURSIVE PathSimul(_, _, _, _)
RECURSIVE PathSimulFlat(_, _, _, _)

PathStmt(stmt, o) ==
    CASE stmt.t = "assign" ->
            IF Holds(stmt.c, o.s) THEN AssignOuts(stmt, o.s, o) ELSE << UpdD(o, stmt.v, o.s[stmt.d]) >>
      [] stmt.t = "draw" ->
            IF Holds(stmt.c, o.s) THEN DrawOuts(stmt, o) ELSE << UpdD(o, stmt.v, o.s[stmt.d]) >>
      [] stmt.t = "if" ->
            LET j == FirstTrue(stmt.cs, o.s, 1)
            IN  IF j > 0 THEN PathStmts(stmt.bs[j], 1, <<o>>) ELSE PathStmts(stmt.el, 1, <<o>>)
      [] stmt.t = "simul" -> PathSimul(stmt.items, 1, o.s, <<o>>)
PathFlat(stmt, outs, j) ==
    IF j > Len(outs) THEN <<>> ELSE PathStmt(stmt, outs[j]) \o PathFlat(stmt, outs, j + 1)
PathStmts(stmts, i, outs) ==
    IF i > Len(stmts) THEN outs ELSE PathStmts(stmts, i + 1, PathFlat(stmts[i], outs, 1))
PathSimulFlat(item, old, outs, j) ==
    IF j > Len(outs) THEN <<>>
    ELSE (IF item.t = "assign" THEN AssignOuts(item, old, outs[j]) ELSE DrawOuts(item, outs[j]))
         \o PathSimulFlat(item, old, outs, j + 1)
PathSimul(items, i, old, outs) ==
    IF i > Len(items) THEN outs ELSE PathSimul(items, i + 1, old, PathSimulFlat(items[i], old, outs, 1))

Start(st) == [s |-> st, w |-> SOne, ch |-> <<>>]
InitPaths(P) == PathStmts(P.init, 1, <<Start(P.s0)>>)
IterPaths(P, st) == IF Holds(P.guard, st) THEN PathStmts(P.body, 1, <<Start(st)>>) ELSE <<Start(st)>>

----------------------------------------------------------------------------
VARIABLES tid,    \* program / trace
          r,      \* run being validated (trace mode) -- 0 in gen mode
          k,      \* iterations executed in this run
          store, w,
          finals, \* trie of (final store -> summed weight) over completed runs
          seenCh, \* set of complete choice sequences of completed runs
          hist,   \* gen mode: events and stores so far
          fails, done
vars == <<tid, r, k, store, w, finals, seenCh, hist, fails, done>>

Tr == Batch.traces[tid]
P == Tr.prog
NV == Len(P.s0)
Mode == Batch.mode

\* recorded events use [i, p] with p a fraction [p, q] (the weight the implementation handed to its
\* random source, normalised by the implementation's total); equal up to the batch tolerance 1/tolDen
SameP(x, cp) == RCmpFrac(x.a, cp.lo.p, cp.lo.q) >= 0 /\ RCmpFrac(x.a, cp.hi.p, cp.hi.q) <= 0
SameEvents(ch, rec) ==
    /\ Len(ch) = Len(rec)
    /\ \A j \in 1..Len(ch) : ch[j].i = rec[j].i /\ SameP(ch[j].p, rec[j])
SameStore(st, rec) == \A v \in 1..NV : REqFrac(st[v].a, rec[v].p, rec[v].q)

Matching(paths, recCh, recStore) ==
    {j \in 1..Len(paths) : SameEvents(paths[j].ch, recCh) /\ SameStore(paths[j].s, recStore)}

Fail(kind, info) == [run |-> r, k |-> k, kind |-> kind, info |-> info]

Run == Tr.runs[r]

\* ---- trace mode
TInit ==
    /\ Mode = "trace"
    /\ tid \in 1..Len(Batch.traces)
    /\ r = 0 /\ k = 0 /\ store = P.s0 /\ w = SOne
    /\ finals = EmptyTrie(NV) /\ seenCh = {} /\ hist = <<>> /\ fails = <<>> /\ done = FALSE

\* begin run r+1: execute the initial block along the recorded choices
TBegin ==
    /\ Mode = "trace" /\ ~done /\ k = 0 /\ r < Len(Tr.runs) /\ (r = 0 \/ store = <<>>)
    /\ LET rn == Tr.runs[r + 1]
           paths == InitPaths(P)
           m == Matching(paths, rn.init.ch, rn.init.state)
       IN  IF m = {}
           THEN /\ fails' = Append(fails, [run |-> r + 1, k |-> 0, kind |-> "init", info |-> Len(paths)])
                /\ store' = <<>> /\ w' = SZero /\ r' = r + 1 /\ k' = 0
           ELSE LET j == CHOOSE j \in m : TRUE
                IN  /\ store' = paths[j].s /\ w' = paths[j].w /\ r' = r + 1 /\ k' = 0
                    /\ fails' = fails
    /\ UNCHANGED <<tid, finals, seenCh, hist, done>>

\* one loop iteration of the current run
TIter ==
    /\ Mode = "trace" /\ ~done /\ r > 0 /\ store # <<>> /\ k < Len(Run.iters)
    /\ LET ev == Run.iters[k + 1]
           guard == Holds(P.guard, store)
           paths == IterPaths(P, store)
           m == Matching(paths, ev.ch, ev.state)
       IN  IF guard # ev.guard
           THEN /\ fails' = Append(fails, Fail("guard", guard)) /\ store' = <<>> /\ w' = SZero /\ k' = 0
           ELSE IF m = {}
           THEN /\ fails' = Append(fails, Fail(IF guard THEN "step" ELSE "stutter",
                                               [offered |-> [j \in 1..Len(paths) |-> paths[j].ch]]))
                /\ store' = <<>> /\ w' = SZero /\ k' = 0
           ELSE LET j == CHOOSE j \in m : TRUE
                IN  /\ store' = paths[j].s /\ w' = SMul(w, paths[j].w) /\ fails' = fails /\ k' = k + 1
    /\ UNCHANGED <<tid, r, finals, seenCh, hist, done>>

AllCh(rn) == <<rn.init.ch>> \o [j \in 1..Len(rn.iters) |-> rn.iters[j].ch]

\* run finished: account for it, get ready for the next one
TEndRun ==
    /\ Mode = "trace" /\ ~done /\ r > 0 /\ store # <<>> /\ k = Len(Run.iters)
    /\ finals' = TrieAdd(finals, store, 1, w)
    /\ seenCh' = seenCh \cup {[j \in 1..Len(AllCh(Run)) |-> [e \in 1..Len(AllCh(Run)[j]) |-> AllCh(Run)[j][e].i]]}
    /\ fails' = IF [j \in 1..Len(AllCh(Run)) |-> [e \in 1..Len(AllCh(Run)[j]) |-> AllCh(Run)[j][e].i]] \in seenCh
                THEN Append(fails, Fail("duplicate-run", r)) ELSE fails
    /\ store' = <<>> /\ k' = 0
    /\ UNCHANGED <<tid, r, w, hist, done>>

RECURSIVE IterN(_, _)
IterN(dist, n) == IF n = 0 THEN dist ELSE IterN(Iter(P, dist), n - 1)

\* all runs consumed: the induced distribution of the runs equals the lifted chain
TFinish ==
    /\ Mode = "trace" /\ ~done /\ (r = Len(Tr.runs)) /\ (store = <<>> \/ Len(Tr.runs) = 0)
    /\ LET got == TrieItems(finals, 1, NV, <<>>)
           want == IterN(InitDist(P), Tr.N)
           complete == Tr.complete
           distOK == IF complete THEN got = want
                     ELSE \A x \in got : \E y \in want : y.s = x.s /\ RCmp(x.w.a, y.w.a) <= 0
           f2 == IF distOK THEN fails
                 ELSE Append(fails, [run |-> 0, k |-> Tr.N, kind |-> "distribution",
                                     info |-> [onlyRuns |-> Cardinality(got \ want), onlySpec |-> Cardinality(want \ got)]])
       IN  /\ JsonSerialize(IOEnv.OUT_DIR \o "/" \o Tr.id \o ".json",
                            [id |-> Tr.id, runs |-> r, fails |-> f2, paths |-> Cardinality(seenCh),
                             support |-> Cardinality(want), mass |-> Mass(got)])
           /\ fails' = f2
    /\ done' = TRUE
    /\ UNCHANGED <<tid, r, k, store, w, finals, seenCh, hist>>

\* ---- gen mode: free-running machine, behaviours printed at depth N
GInit ==
    /\ Mode = "gen"
    /\ tid \in 1..Len(Batch.traces)
    /\ \E j \in 1..Len(InitPaths(P)) :
          /\ store = InitPaths(P)[j].s /\ w = InitPaths(P)[j].w
          /\ hist = <<[ch |-> InitPaths(P)[j].ch, s |-> InitPaths(P)[j].s]>>
    /\ r = 0 /\ k = 0 /\ finals = <<>> /\ seenCh = {} /\ fails = <<>> /\ done = FALSE

GIter ==
    /\ Mode = "gen" /\ ~done /\ k < Tr.N
    /\ \E j \in 1..Len(IterPaths(P, store)) :
          LET o == IterPaths(P, store)[j]
          IN  /\ store' = o.s /\ w' = SMul(w, o.w)
              /\ hist' = Append(hist, [ch |-> o.ch, s |-> o.s])
    /\ k' = k + 1
    /\ UNCHANGED <<tid, r, finals, seenCh, fails, done>>

GEmit ==
    /\ Mode = "gen" /\ ~done /\ k = Tr.N
    /\ PrintT("@@RUN " \o ToJson([id |-> Tr.id, w |-> w, hist |-> hist]))
    /\ done' = TRUE
    /\ UNCHANGED <<tid, r, k, store, w, finals, seenCh, hist, fails>>

Init == TInit \/ GInit
Next == TBegin \/ TIter \/ TEndRun \/ TFinish \/ GIter \/ GEmit
Spec == Init /\ [][Next]_vars

\* path weights are probabilities; a frozen store never changes
WeightOK == store = <<>> \/ (RSign(w.a) > 0 /\ RCmp(w.a, ROne) <= 0)
FrozenOK == [][(Mode = "gen" /\ k' = k + 1 /\ ~Holds(P.guard, store)) => store' = store]_vars
=============================================================================
