------------------------------- MODULE Typer -------------------------------
(***************************************************************************)
(* type_inference/finite_fixed_point_typer.py as a state machine, one      *)
(* action per sweep (FiniteFixedPointTyper._progress), structured like the *)
(* code:                                                                   *)
(*                                                                         *)
(*   state := after _initialize_state            (observed, input)         *)
(*   repeat at most `iterations' times:  Progress;  stop at a fixed point  *)
(*   while not at a fixed point:  FailChanged;  Progress                   *)
(*                                                                         *)
(* Progress goes through the loop body in order.  For an unlocked variable *)
(* it evaluates every expression of the assignment's support (observed:    *)
(* Assignment.get_support, exported as polynomials) over the current value *)
(* sets; a failed operand, an interval, an empty result or more than       *)
(* MaxVals values fail the variable (failed variables are locked).         *)
(*                                                                         *)
(* Trace validation: the state recorded after every real _progress call    *)
(* must be the model's state after the same number of sweeps (value sets,  *)
(* failed and changed flags).  One ambiguity is resolved by the            *)
(* observation: the implementation also fails an expression when an        *)
(* INTERMEDIATE product of value sets exceeds MaxVals, which depends on the *)
(* iteration order of a Python set; when the full product exceeds MaxVals  *)
(* but the final set does not, either outcome is accepted and followed.    *)
(*                                                                         *)
(* Properties of the model run (they transfer to a conforming run):        *)
(*   Monotone    value sets only grow                                      *)
(*   Bounded     at most iterations + number of variables + 1 sweeps       *)
(*   at the end  FixedPoint: no unlocked variable would change any more,   *)
(*               Closed: a variable that reads a failed one is failed      *)
(***************************************************************************)
EXTENDS Integers, Sequences, FiniteSets, FiniteSetsExt, TLC, Json, IOUtils

Batch == JsonDeserialize(IOEnv.BATCH_FILE)
Base == 10000
D == Batch.D
INSTANCE LoopDist

VARIABLES tid, st, sweep, phase, fails, done
vars == <<tid, st, sweep, phase, fails, done>>

Tr == Batch.traces[tid]
NV == Tr.nv
MaxVals == Tr.maxvals
SetOf(s) == {s[i] : i \in 1..Len(s)}

\* state: st[v] = [vals |-> set of R, failed |-> BOOL, locked |-> BOOL, changed |-> BOOL]
FromObs(o) == [v \in 1..NV |-> [vals |-> SetOf(o[v].vals), failed |-> o[v].failed, locked |-> o[v].locked,
                                changed |-> o[v].changed]]

ExprVars(p) == UNION {{p[i].e[j][1] : j \in 1..Len(p[i].e)} : i \in 1..Len(p)}

\* all stores that give every variable of vs one of its current values (other variables: zero)
RECURSIVE ValStores(_, _, _)
ValStores(vs, s, base) ==
    IF vs = {} THEN {base}
    ELSE LET v == CHOOSE x \in vs : TRUE
         IN  UNION {ValStores(vs \ {v}, s, [base EXCEPT ![v] = SLift(x)]) : x \in s[v].vals}
ZeroStore == [v \in 1..NV |-> SZero]

RECURSIVE CardProd(_, _)
CardProd(vs, s) == IF vs = {} THEN 1
                   ELSE LET v == CHOOSE x \in vs : TRUE IN Cardinality(s[v].vals) * CardProd(vs \ {v}, s)

\* result of one support expression: [r |-> "fail" / "ok" / "maybe", vals |-> set]
ExprValues(p, s) ==
    LET vs == ExprVars(p)
    IN  IF \E v \in vs : s[v].failed THEN [r |-> "fail", vals |-> {}]
        ELSE LET res == {Eval(p, sto).a : sto \in ValStores(vs, s, ZeroStore)}
             IN  IF res = {} THEN [r |-> "fail", vals |-> {}]
                 ELSE IF Cardinality(res) > MaxVals THEN [r |-> "fail", vals |-> {}]
                 ELSE IF CardProd(vs, s) > MaxVals THEN [r |-> "maybe", vals |-> res]
                 ELSE [r |-> "ok", vals |-> res]

RECURSIVE AssignValues(_, _, _, _, _)
AssignValues(exprs, i, s, acc, maybe) ==
    IF i > Len(exprs) THEN [r |-> IF acc = {} THEN "fail" ELSE IF maybe THEN "maybe" ELSE "ok", vals |-> acc]
    ELSE LET e == ExprValues(exprs[i], s)
         IN  IF e.r = "fail" THEN [r |-> "fail", vals |-> {}]
             ELSE IF Cardinality(acc \cup e.vals) > MaxVals THEN [r |-> "fail", vals |-> {}]
             ELSE AssignValues(exprs, i + 1, s, acc \cup e.vals, maybe \/ e.r = "maybe")

Failed(x) == [vals |-> x.vals, failed |-> TRUE, locked |-> TRUE, changed |-> TRUE]

\* one statement of a sweep; obsFailed: what the recorded sweep says about the variable (used for "maybe" only)
StepStmt(stmt, s, obsFailed) ==
    LET v == stmt.v
    IN  IF s[v].locked THEN [s EXCEPT ![v].changed = FALSE]
        ELSE IF stmt.interval THEN [s EXCEPT ![v] = Failed(s[v])]
        ELSE LET a == AssignValues(stmt.exprs, 1, s, {}, FALSE)
             IN  IF a.r = "fail" \/ (a.r = "maybe" /\ obsFailed[v]) THEN [s EXCEPT ![v] = Failed(s[v])]
                 ELSE IF a.vals \subseteq s[v].vals THEN [s EXCEPT ![v].changed = FALSE]
                 ELSE [s EXCEPT ![v].vals = s[v].vals \cup a.vals, ![v].changed = TRUE]

RECURSIVE ProgressFrom(_, _, _)
ProgressFrom(i, s, obsFailed) ==
    IF i > Len(Tr.body) THEN s ELSE ProgressFrom(i + 1, StepStmt(Tr.body[i], s, obsFailed), obsFailed)
Progress(s, obsFailed) == ProgressFrom(1, s, obsFailed)

FixedPointReached(s) == \A v \in 1..NV : ~s[v].changed
FailChanged(s) == [v \in 1..NV |-> IF s[v].changed THEN Failed(s[v]) ELSE s[v]]

ObsFailedAt(k) == IF k <= Len(Tr.sweeps) THEN [v \in 1..NV |-> Tr.sweeps[k][v].failed] ELSE [v \in 1..NV |-> FALSE]

Same(s, o) == \A v \in 1..NV : /\ s[v].vals = SetOf(o[v].vals)
                               /\ s[v].failed = o[v].failed
                               /\ s[v].changed = o[v].changed
Diff(s, o) == {v \in 1..NV : ~(s[v].vals = SetOf(o[v].vals) /\ s[v].failed = o[v].failed /\ s[v].changed = o[v].changed)}

Init == /\ tid \in 1..Len(Batch.traces)
        /\ st = FromObs(Tr.init) /\ sweep = 0 /\ phase = "iterate" /\ fails = <<>> /\ done = FALSE

Check(s, k) == IF k > Len(Tr.sweeps) THEN <<[sweep |-> k, clause |-> "more sweeps than recorded"]>>
               ELSE IF Same(s, Tr.sweeps[k]) THEN <<>>
               ELSE <<[sweep |-> k, clause |-> "state after the sweep differs", vars |-> Diff(s, Tr.sweeps[k])]>>

\* a sweep of the first loop
Iterate ==
    /\ ~done /\ phase = "iterate" /\ sweep < Tr.iterations
    /\ LET s2 == Progress(st, ObsFailedAt(sweep + 1))
       IN  /\ st' = s2 /\ sweep' = sweep + 1
           /\ fails' = fails \o Check(s2, sweep + 1)
           /\ phase' = IF FixedPointReached(s2) THEN "finish" ELSE IF sweep + 1 = Tr.iterations THEN "failprop" ELSE "iterate"
    /\ UNCHANGED <<tid, done>>

\* the iteration budget may be 0
Skip == /\ ~done /\ phase = "iterate" /\ sweep >= Tr.iterations
        /\ phase' = IF FixedPointReached(st) THEN "finish" ELSE "failprop"
        /\ UNCHANGED <<tid, st, sweep, fails, done>>

\* fail what still changes, sweep again
FailProp ==
    /\ ~done /\ phase = "failprop"
    /\ IF FixedPointReached(st) THEN /\ phase' = "finish" /\ UNCHANGED <<st, sweep, fails>>
       ELSE LET s2 == Progress(FailChanged(st), ObsFailedAt(sweep + 1))
            IN  /\ st' = s2 /\ sweep' = sweep + 1
                /\ fails' = fails \o Check(s2, sweep + 1)
                /\ phase' = "failprop"
    /\ UNCHANGED <<tid, done>>

Reads(stmt) == UNION {ExprVars(stmt.exprs[i]) : i \in 1..Len(stmt.exprs)}
FinalFails ==
    (IF sweep # Len(Tr.sweeps) THEN <<[sweep |-> sweep, clause |-> "number of sweeps", recorded |-> Len(Tr.sweeps)]>> ELSE <<>>)
    \o (IF \E i \in 1..Len(Tr.body) : ~st[Tr.body[i].v].locked /\ ~Tr.body[i].interval
                                     /\ LET a == AssignValues(Tr.body[i].exprs, 1, st, {}, FALSE)
                                        IN  a.r = "ok" /\ ~(a.vals \subseteq st[Tr.body[i].v].vals)
        THEN <<[sweep |-> sweep, clause |-> "not a fixed point"]>> ELSE <<>>)
    \o (IF \E i \in 1..Len(Tr.body) : ~st[Tr.body[i].v].failed /\ ~st[Tr.body[i].v].locked
                                     /\ \E u \in Reads(Tr.body[i]) : st[u].failed
        THEN <<[sweep |-> sweep, clause |-> "reads a failed variable but is not failed"]>> ELSE <<>>)

Finish ==
    /\ ~done /\ phase = "finish"
    /\ JsonSerialize(IOEnv.OUT_DIR \o "/" \o Tr.id \o ".json",
                     [id |-> Tr.id, sweeps |-> sweep, fails |-> fails \o FinalFails,
                      failed |-> {v \in 1..NV : st[v].failed}])
    /\ done' = TRUE
    /\ UNCHANGED <<tid, st, sweep, phase, fails>>

Next == Iterate \/ Skip \/ FailProp \/ Finish
Spec == Init /\ [][Next]_vars

Monotone == [][\A v \in 1..NV : st[v].vals \subseteq st'[v].vals /\ (st[v].failed => st'[v].failed)]_vars
Bounded == sweep <= Tr.iterations + NV + 1
=============================================================================
