SPECIFICATION Spec
INVARIANT PreHolds
INVARIANT EndsNormal
INVARIANT Stable
PROPERTY NoReturn
CHECK_DEADLOCK FALSE
