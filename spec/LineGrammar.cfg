CONSTANT MaxLen = 8
SPECIFICATION Spec
INVARIANT StackOnlyInBodies
INVARIANT DoneHasNoOpenBlock
PROPERTY DeadIsFinal
CONSTRAINT Emit
CHECK_DEADLOCK FALSE
