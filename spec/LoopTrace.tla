------------------------------ MODULE LoopTrace ------------------------------
(***************************************************************************)
(* Trace specification: validates recorded observations of Polar against   *)
(* the loop semantics of LoopDist.                                         *)
(*                                                                         *)
(* A batch file (JSON, path in env BATCH_FILE) holds many traces.  A trace *)
(* is  [id, progs, N, steps]  where progs is a sequence of programs (the   *)
(* source program, and optionally programs observed after normalisation    *)
(* passes or written by the harness for comparison) and steps[n+1] is the  *)
(* sequence of claims the implementation made about iteration n.           *)
(*                                                                         *)
(* The machine: pick a trace (Init), then step all its programs through    *)
(* LoopDist!Iter N times; after every step each claim bound to that step   *)
(* is evaluated against the distributions.  Verdicts are total: failing    *)
(* clauses are accumulated in `fails' and the behaviour continues; when    *)
(* the last step has been consumed the verdict is written to               *)
(* OUT_DIR/<id>.json.  A trace without a verdict file was not accepted.    *)
(***************************************************************************)
EXTENDS Integers, Sequences, FiniteSets, FiniteSetsExt, TLC, Json, IOUtils

Batch == JsonDeserialize(IOEnv.BATCH_FILE)
Base == 10000
D == Batch.D
INSTANCE LoopDist

VARIABLES tid,     \* index of the trace in the batch
          n,       \* iterations executed so far
          dists,   \* dists[i] = distribution of program i after n iterations
          reach,   \* iteration-boundary stores of program 1 seen so far
          closedAt,\* first n at which reach stopped growing, -1 if not (yet)
          fails,   \* failing clauses so far
          skipped, \* clauses whose precondition did not hold (not checked)
          done
vars == <<tid, n, dists, reach, closedAt, fails, skipped, done>>

Tr == Batch.traces[tid]
NP == Len(Tr.progs)

RFromZ(z) == [s |-> z.s, m |-> z.m, k |-> 0]
Part(x, cl) == IF "part" \in DOMAIN cl /\ cl.part = "b" THEN x.b ELSE x.a

Fail(i, cl, nn, got) == [n |-> nn, i |-> i, t |-> cl.t, got |-> got]

----------------------------------------------------------------------------
(* clauses.  Each returns [f |-> sequence of failures, k |-> number skipped] *)

SetToSeq(S) == FoldSet(LAMBDA x, acc : Append(acc, x), <<>>, S)
OK == [f |-> <<>>, k |-> 0]
Skip == [f |-> <<>>, k |-> 1]
Bad(i, cl, nn, got) == [f |-> <<Fail(i, cl, nn, got)>>, k |-> 0]

RECURSIVE RhsSum(_, _, _)
RhsSum(rhs, dist, i) ==
    IF i > Len(rhs) THEN SZero
    ELSE SAdd(SMul(rhs[i].c, Moment(rhs[i].m, dist)), RhsSum(rhs, dist, i + 1))

MomentOuts(p, outs) ==
    FoldSet(LAMBDA i, acc : SAdd(acc, SMul(outs[i].w, Eval(p, outs[i].s))), SZero, 1..Len(outs))

\* goal quantities as the CLI knows them: raw moment of a polynomial, k-th central moment, k-th cumulant
GoalVal(g, dist) ==
    CASE g.kind = "mom" -> Moment(g.poly, dist).a
      [] g.kind = "central" -> Central(g.poly, g.k, dist).a
      [] g.kind = "cumulant" -> Cumulant(g.poly, g.k, dist).a
RECURSIVE GoalMono(_, _, _)
GoalMono(e, gv, j) == IF j > Len(e) THEN ROne ELSE RMul(RPow(gv[j], e[j]), GoalMono(e, gv, j + 1))
RECURSIVE PolyInGoals(_, _, _)
PolyInGoals(terms, gv, t) ==
    IF t > Len(terms) THEN RZero
    ELSE RAdd(RMul(RFromZ(terms[t].c), GoalMono(terms[t].e, gv, 1)), PolyInGoals(terms, gv, t + 1))

\* claims about the state after nn iterations; old = distributions before the
\* last iteration (only meaningful for nn > 0), new = after it.
Clause(i, cl, nn, old, new, seen) ==
    CASE cl.t = "mom" ->          \* E[poly] = p/q  (part "b": its parameter derivative)
            LET x == Part(Moment(cl.poly, new[cl.pi]), cl)
            IN  IF REqFrac(x, cl.p, cl.q) THEN OK ELSE Bad(i, cl, nn, x)
      [] cl.t = "momI" ->         \* lo <= E[poly] <= hi
            LET x == Part(Moment(cl.poly, new[cl.pi]), cl)
            IN  IF RCmpFrac(x, cl.lo.p, cl.lo.q) >= 0 /\ RCmpFrac(x, cl.hi.p, cl.hi.q) <= 0
                THEN OK ELSE Bad(i, cl, nn, x)
      [] cl.t = "rec" ->          \* E_n[lhs] = sum c_i E_{n-1}[m_i] + k
            IF nn = 0 THEN Skip
            ELSE LET l == Moment(cl.lhs, new[cl.pi])
                     r == SAdd(RhsSum(cl.rhs, old[cl.pi], 1), cl.k)
                 IN  IF l = r THEN OK ELSE Bad(i, cl, nn, <<l, r>>)
      [] cl.t = "recE" ->         \* E_n[lhs] = E_{n-1}[rhsp]   (rhsp: the equation's whole right-hand side)
            IF nn = 0 THEN Skip
            ELSE LET l == Moment(cl.lhs, new[cl.pi])
                     r == Moment(cl.rhsp, old[cl.pi])
                 IN  IF l = r THEN OK ELSE Bad(i, cl, nn, <<l, r>>)
      [] cl.t = "recpt" ->        \* pointwise: E[lhs(next) | st] = rhsp(st) on every store
            IF nn = 0 THEN Skip
            ELSE LET P == Tr.progs[cl.pi]
                     bad == {st \in Stores(old[cl.pi]) :
                                MomentOuts(cl.lhs, IterOuts(P, st)) # Eval(cl.rhsp, st)}
                 IN  IF bad = {} THEN OK ELSE Bad(i, cl, nn, CHOOSE st \in bad : TRUE)
      [] cl.t = "recpts" ->       \* the same for a list of equations, sharing the successor computation
            IF nn = 0 THEN Skip
            ELSE LET P == Tr.progs[cl.pi]
                     badAt(st) == LET outs == IterOuts(P, st)
                                  IN  {e \in 1..Len(cl.eqs) :
                                          MomentOuts(cl.eqs[e].lhs, outs) # Eval(cl.eqs[e].rhsp, st)}
                     bad == {st \in Stores(old[cl.pi]) : badAt(st) # {}}
                 IN  IF bad = {} THEN OK
                     ELSE LET st == CHOOSE st \in bad : TRUE
                          IN  Bad(i, cl, nn, [store |-> st, eqs |-> SetToSeq(badAt(st))])
      [] cl.t = "supp" ->         \* every value variable v holds at any point is in vals
            \* cl.start is the variable's start value: what it "holds" before its first assignment is not a value
            \* the program gave it (the harness makes start values of uninitialised variables distinctive)
            \* (exempt = FALSE when the program may READ the start value before assigning the variable: then it is
            \* an input of the program and counts)
            LET vals == {cl.vals[j].a : j \in 1..Len(cl.vals)} \cup (IF cl.exempt THEN {cl.start.a} ELSE {})
                bad  == Support(cl.v, seen[cl.pi]) \ vals
            IN  IF bad = {} THEN OK ELSE Bad(i, cl, nn, CHOOSE x \in bad : TRUE)
      [] cl.t = "equiv" ->        \* same joint law of the listed variables
            LET pa == Project(new[cl.a], cl.va)
                pb == Project(new[cl.b], cl.vb)
            IN  IF pa = pb THEN OK
                ELSE Bad(i, cl, nn, [onlyA |-> SetToSeq(pa \ pb), onlyB |-> SetToSeq(pb \ pa)])
      [] cl.t = "cmom" ->         \* E[poly ; cond] / P(cond) = p/q, when P(cond) > 0
            \* lag = 1: the claim made for iteration nn is compared with the distribution after nn - 1
            \* iterations (used to recognise the known one-iteration lag of the termination sequence)
            IF cl.lag = 1 /\ nn = 0 THEN (IF cl.undef = 1 THEN OK ELSE Skip)
            ELSE
            LET d == IF cl.lag = 1 THEN old[cl.pi] ELSE new[cl.pi]
                y == Prob(cl.cond, d).a
                x == MomentOn(cl.poly, cl.cond, d).a
            IN  IF y.m = <<>> THEN Skip
                ELSE IF cl.undef = 1 THEN Bad(i, cl, nn, <<x, y>>)
                ELSE IF RMul(x, RFromZ(cl.q)) = RMul(RFromZ(cl.p), y) THEN OK
                ELSE Bad(i, cl, nn, <<x, y>>)
      [] cl.t = "prob" ->         \* P(cond) = p/q
            LET y == Prob(cl.cond, new[cl.pi]).a
            IN  IF REqFrac(y, cl.p, cl.q) THEN OK ELSE Bad(i, cl, nn, y)
      [] cl.t = "central" ->
            LET x == Central(cl.poly, cl.k, new[cl.pi]).a
            IN  IF REqFrac(x, cl.p, cl.q) THEN OK ELSE Bad(i, cl, nn, x)
      [] cl.t = "cumulant" ->
            LET x == Cumulant(cl.poly, cl.k, new[cl.pi]).a
            IN  IF REqFrac(x, cl.p, cl.q) THEN OK ELSE Bad(i, cl, nn, x)
      [] cl.t = "tailU" ->        \* poly >= 0 on the support  =>  P(poly >= thr) <= p/q
            LET d == new[cl.pi]
            IN  IF \E r \in d : RSign(Eval(cl.poly, r.s).a) < 0 THEN Skip
                ELSE LET pr == FoldSet(LAMBDA r, acc : IF SCmp(Eval(cl.poly, r.s), cl.thr) >= 0
                                                          THEN SAdd(acc, r.w) ELSE acc, SZero, d).a
                     IN  IF RCmpFrac(pr, cl.p, cl.q) <= 0 THEN OK ELSE Bad(i, cl, nn, pr)
      [] cl.t = "tailL" ->        \* poly - thr >= 0 on the support  =>  P(poly > thr) >= p/q
            LET d == new[cl.pi]
            IN  IF \E r \in d : SCmp(Eval(cl.poly, r.s), cl.thr) < 0 THEN Skip
                ELSE LET pr == FoldSet(LAMBDA r, acc : IF SCmp(Eval(cl.poly, r.s), cl.thr) > 0
                                                          THEN SAdd(acc, r.w) ELSE acc, SZero, d).a
                     IN  IF RCmpFrac(pr, cl.p, cl.q) >= 0 THEN OK ELSE Bad(i, cl, nn, pr)
      [] cl.t = "momeq" ->        \* E_a[pa] = E_b[pb] : the same moment in two programs
            LET x == Moment(cl.pa, new[cl.a])
                y == Moment(cl.pb, new[cl.b])
            IN  IF x = y THEN OK ELSE Bad(i, cl, nn, <<x, y>>)
      [] cl.t = "cdraw" ->        \* E[m * z^k] for a final, moment-only draw z = fam(params(store)); with field ep the
                                  \* draw is guarded: m carries the indicator of the guard, ep is what E[. z^k] is otherwise
            LET x == IF "ep" \in DOMAIN cl
                     THEN RAdd(DrawMoment(cl.fam, cl.params, cl.k, cl.poly, new[cl.pi]).a, Moment(cl.ep, new[cl.pi]).a)
                     ELSE DrawMoment(cl.fam, cl.params, cl.k, cl.poly, new[cl.pi]).a
            IN  IF REqFrac(x, cl.p, cl.q) THEN OK ELSE Bad(i, cl, nn, x)
      [] cl.t = "inv" ->          \* a polynomial (integer coefficients) in the goal quantities vanishes
            LET gv == [j \in 1..Len(cl.goals) |-> GoalVal(cl.goals[j], new[cl.pi])]
                val == PolyInGoals(cl.terms, gv, 1)
            IN  IF val = RZero THEN OK ELSE Bad(i, cl, nn, val)
      [] cl.t = "goalvals" ->     \* report the goal quantities as the semantics has them (no check)
            Bad(i, cl, nn, [j \in 1..Len(cl.goals) |-> GoalVal(cl.goals[j], new[cl.pi])])
      [] cl.t = "value" ->        \* report E[poly] (no check): lets the harness read the semantics
            Bad(i, cl, nn, Moment(cl.poly, new[cl.pi]))
      [] OTHER -> Bad(i, cl, nn, "unknown clause")

\* the semantics' own sanity, checked on every program at every step
MassFails(nn, new) ==
    LET bad == {pi \in 1..Len(new) : Mass(new[pi]).a # ROne
                   \/ \E r \in new[pi] : RSign(r.w.a) <= 0}
    IN  [pi \in bad |-> [n |-> nn, i |-> 0, t |-> "mass", pi |-> pi, got |-> Mass(new[pi])]]

RECURSIVE Clauses(_, _, _, _, _, _)
Clauses(cls, i, nn, old, new, seen) ==
    IF i > Len(cls) THEN OK
    ELSE LET a == Clause(i, cls[i], nn, old, new, seen)
             b == Clauses(cls, i + 1, nn, old, new, seen)
         IN  [f |-> a.f \o b.f, k |-> a.k + b.k]

FnToSeq(f) == SetToSeq({f[x] : x \in DOMAIN f})

NeedSeen(cls) == \E i \in 1..Len(cls) : cls[i].t = "supp"

StepResult(nn, old, new, seen) ==
    LET c == Clauses(Tr.steps[nn + 1], 1, nn, old, new, seen)
    IN  [f |-> FnToSeq(MassFails(nn, new)) \o c.f, k |-> c.k]

----------------------------------------------------------------------------

Init ==
    /\ tid \in 1..Len(Batch.traces)
    /\ n = 0
    /\ dists = [pi \in 1..NP |-> InitDist(Tr.progs[pi])]
    /\ reach = Stores(dists[1])
    /\ closedAt = -1
    /\ LET seen == IF NeedSeen(Tr.steps[1]) THEN [pi \in 1..NP |-> SeenInit(Tr.progs[pi])] ELSE <<>>
           r == StepResult(0, dists, dists, seen)
       IN  fails = r.f /\ skipped = r.k
    /\ done = FALSE

\* resource guard of the trace machine (not part of the semantics): a trace whose supports outgrow
\* the batch's cap is cut short; its verdict then says how many steps were consumed.
TooBig == \E pi \in 1..NP : Cardinality(dists[pi]) > Batch.maxSupport

Step ==
    /\ ~done /\ n < Tr.N /\ ~TooBig
    /\ LET new  == [pi \in 1..NP |-> Iter(Tr.progs[pi], dists[pi])]
           seen == IF NeedSeen(Tr.steps[n + 2])
                   THEN [pi \in 1..NP |-> SeenIter(Tr.progs[pi], dists[pi])] ELSE <<>>
           r    == StepResult(n + 1, dists, new, seen)
       IN  /\ dists' = new
           /\ fails' = fails \o r.f
           /\ skipped' = skipped + r.k
           /\ reach' = reach \cup Stores(new[1])
           /\ closedAt' = IF closedAt >= 0 THEN closedAt
                          ELSE IF Stores(new[1]) \subseteq reach THEN n + 1 ELSE -1
    /\ n' = n + 1
    /\ UNCHANGED <<tid, done>>

Verdict ==
    [id |-> Tr.id, steps |-> n, fails |-> fails, skipped |-> skipped,
     reach |-> Cardinality(reach), closedAt |-> closedAt,
     support |-> [pi \in 1..NP |-> Cardinality(dists[pi])]]

Finish ==
    /\ ~done /\ (n = Tr.N \/ TooBig)
    /\ JsonSerialize(IOEnv.OUT_DIR \o "/" \o Tr.id \o ".json", Verdict)
    /\ done' = TRUE
    /\ UNCHANGED <<tid, n, dists, reach, closedAt, fails, skipped>>

Next == Step \/ Finish
Spec == Init /\ [][Next]_vars

\* the semantic sanity invariant (a violation here is a defect of the batch, e.g. an
\* ill-formed probability vector, and is reported through `fails' as clause "mass")
TypeOK == n \in 0..Tr.N /\ done \in BOOLEAN
=============================================================================
