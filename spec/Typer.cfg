SPECIFICATION Spec
INVARIANT Bounded
PROPERTY Monotone
CHECK_DEADLOCK FALSE
