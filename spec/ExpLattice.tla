----------------------------- MODULE ExpLattice -----------------------------
(***************************************************************************)
(* Multiplicative relations among algebraic numbers of a quadratic field.  *)
(*                                                                         *)
(* A base is (a + b*sqrt(d)) / den with integers a, b, den > 0 and a fixed *)
(* square-free integer d per list (d = 1 and b = 0: rationals; d = -1:     *)
(* Gaussian numbers; d = 2, 5: real quadratic fields).  For an exponent    *)
(* vector e,                                                               *)
(*     Rel(e)  ==  prod b_i^e_i = 1                                        *)
(* is decided exactly by moving negative exponents to the other side:      *)
(*     prod_{e_i>0} b_i^e_i  =  prod_{e_i<0} b_i^(-e_i)                    *)
(* and cross-multiplying the denominators (big integers of Exact).         *)
(*                                                                         *)
(* The machine scans every exponent vector of the box [-B, B]^k for every  *)
(* list of the batch and checks the basis the implementation returned:     *)
(*   Sound        every basis vector satisfies Rel                         *)
(*   Independent  the basis has full rank (some r x r minor is non-zero)   *)
(*   Complete     Rel(e) => e is an integer combination of the basis       *)
(*                (coefficients searched in [-C, C]^r)                     *)
(***************************************************************************)
EXTENDS Integers, Sequences, FiniteSets, FiniteSetsExt, TLC, Json, IOUtils

Batch == JsonDeserialize(IOEnv.BATCH_FILE)
Base == 10000
D == 2
INSTANCE Exact

VARIABLES tid, i, fails, nrel, done
vars == <<tid, i, fails, nrel, done>>
Tr == Batch.traces[tid]
K == Len(Tr.bases)
B == Tr.B
Side == 2 * B + 1
BoxSize == IF K = 0 THEN 1 ELSE Side ^ K

\* i-th vector of the box, mixed radix
RECURSIVE Digits(_, _)
Digits(x, k) == IF k = 0 THEN <<>> ELSE <<(x % Side) - B>> \o Digits(x \div Side, k - 1)
Vec(x) == Digits(x, K)

\* field elements [a, b, den] with integer (Z) components; d is the list's radicand
One == [a |-> ZFromInt(1), b |-> ZZero, den |-> ZFromInt(1)]
Mul(x, y, d) == [a |-> ZAdd(ZMul(x.a, y.a), ZMul(d, ZMul(x.b, y.b))),
                 b |-> ZAdd(ZMul(x.a, y.b), ZMul(x.b, y.a)),
                 den |-> ZMul(x.den, y.den)]
RECURSIVE Pow(_, _, _)
Pow(x, e, d) == IF e = 0 THEN One ELSE Mul(x, Pow(x, e - 1, d), d)
Eq(x, y) == ZMul(x.a, y.den) = ZMul(y.a, x.den) /\ ZMul(x.b, y.den) = ZMul(y.b, x.den)

RECURSIVE ProdSide(_, _, _, _)
ProdSide(e, j, sign, d) ==     \* product over the positive (sign = 1) or negative (sign = -1) exponents
    IF j > K THEN One
    ELSE LET ex == e[j] * sign
         IN  IF ex > 0 THEN Mul(Pow(Tr.bases[j], ex, d), ProdSide(e, j + 1, sign, d), d)
             ELSE ProdSide(e, j + 1, sign, d)
Rel(e) == Eq(ProdSide(e, 1, 1, Tr.d), ProdSide(e, 1, -1, Tr.d))

Basis == Tr.basis
R == Len(Basis)
Comb(c) == [j \in 1..K |-> FoldSet(LAMBDA r, acc : acc + c[r] * Basis[r][j], 0, 1..R)]
InSpan(e) == IF R = 0 THEN \A j \in 1..K : e[j] = 0
             ELSE \E c \in [1..R -> (0 - Tr.C)..Tr.C] : Comb(c) = e

SetToSeqLocal(S) == FoldSet(LAMBDA x, acc : Append(acc, x), <<>>, S)

\* rank R: some R x R minor is non-zero (R <= 3)
Det(M, r) ==
    CASE r = 0 -> 1
      [] r = 1 -> M[1][1]
      [] r = 2 -> M[1][1] * M[2][2] - M[1][2] * M[2][1]
      [] r = 3 -> M[1][1] * (M[2][2] * M[3][3] - M[2][3] * M[3][2])
                - M[1][2] * (M[2][1] * M[3][3] - M[2][3] * M[3][1])
                + M[1][3] * (M[2][1] * M[3][2] - M[2][2] * M[3][1])
Independent ==
    IF R = 0 THEN TRUE
    ELSE IF R > K \/ R > 3 THEN FALSE
    ELSE \E cols \in {s \in SUBSET (1..K) : Cardinality(s) = R} :
            LET cs == SetToSeqLocal(cols)
            IN  Det([r \in 1..R |-> [c \in 1..R |-> Basis[r][cs[c]]]], R) # 0
Sound == {r \in 1..R : ~Rel(Basis[r])}

Init == /\ tid \in 1..Len(Batch.traces)
        /\ i = 0
        /\ fails = (IF Sound = {} THEN <<>> ELSE <<[kind |-> "unsound", rows |-> SetToSeqLocal(Sound)]>>)
                   \o (IF Independent THEN <<>> ELSE <<[kind |-> "dependent"]>>)
        /\ nrel = 0
        /\ done = FALSE

Step == /\ ~done /\ i < BoxSize
        /\ LET e == Vec(i)
               rel == Rel(e)
           IN  /\ fails' = IF rel /\ ~InSpan(e) THEN Append(fails, [kind |-> "incomplete", e |-> e]) ELSE fails
               /\ nrel' = IF rel THEN nrel + 1 ELSE nrel
        /\ i' = i + 1
        /\ UNCHANGED <<tid, done>>

Finish == /\ ~done /\ i = BoxSize
          /\ JsonSerialize(IOEnv.OUT_DIR \o "/" \o Tr.id \o ".json",
                           [id |-> Tr.id, scanned |-> i, relations |-> nrel, fails |-> fails])
          /\ done' = TRUE
          /\ UNCHANGED <<tid, i, fails, nrel>>

Next == Step \/ Finish
Spec == Init /\ [][Next]_vars
TypeOK == i \in 0..BoxSize
=============================================================================
