CONSTANTS Kdim = 2  Hi = 2  VHi = 1  Steps = 7  BHi = 0
SPECIFICATION Spec
CONSTRAINT Emit
CHECK_DEADLOCK FALSE
