#!/usr/bin/env python3
"""Runs checks against a seeded change without touching /repo: scratch worktree + POLAR_REPO.
usage: mutant_run.py <seed-name> <check id> [<check id> ...] [--tier quick]"""
import json, os, subprocess, sys, time
seed = sys.argv[1]
ids = [a for a in sys.argv[2:] if not a.startswith("--")]
tier = "thorough" if "--thorough" in sys.argv else "quick"
V = "/verif"
wt = f"/tmp/mut/{seed}"
os.makedirs("/tmp/mut", exist_ok=True)
subprocess.run(["git", "-C", "/repo", "worktree", "remove", "--force", wt], capture_output=True)
subprocess.run(["git", "-C", "/repo", "worktree", "add", "-q", "--detach", wt, "HEAD"], check=True)
out = {}
try:
    a = subprocess.run(["git", "apply", f"{V}/seeded/{seed}/patch.diff"], cwd=wt, capture_output=True, text=True)
    if a.returncode != 0:
        print("patch does not apply:", a.stderr); sys.exit(2)
    for cid in ids:
        env = dict(os.environ, POLAR_REPO=wt, VERIF_EVIDENCE_DIR=f"/tmp/mut/{seed}.evid")
        t = time.time()
        p = subprocess.run([f"{V}/check", cid, "--tier", tier], cwd=V, env=env, capture_output=True, text=True)
        viol = [l for l in p.stdout.splitlines() if l.startswith("VIOLATION")]
        out[cid] = {"exit": p.returncode, "violations": len(viol), "wall_s": round(time.time() - t), "tier": tier,
                    "stderr_tail": p.stderr[-300:]}
        if viol:
            try:
                d = json.load(open(viol[0].split("replay=")[1]))
                out[cid]["first"] = json.dumps(d["detail"], default=str)[:600]
            except Exception:
                pass
finally:
    subprocess.run(["git", "-C", "/repo", "worktree", "remove", "--force", wt], capture_output=True)
    subprocess.run(["rm", "-rf", f"/tmp/mut/{seed}.evid"])
dst = f"{V}/seeded/{seed}/detected.json"
old = json.load(open(dst)) if os.path.exists(dst) else {}
old.update(out)
json.dump(old, open(dst, "w"), indent=1)
print(seed, json.dumps({k: (v["exit"], v["violations"], v["wall_s"]) for k, v in out.items()}))
