#!/usr/bin/env python3
"""Regenerates /verif/MANIFEST.json from the table below (single source of truth for the interface)."""
import json, os
V = os.path.dirname(os.path.dirname(os.path.abspath(__file__)))
props = [json.loads(l)["id"] for l in open(os.path.join(V, "properties.jsonl"))]

MC = "model_checking"
CHECKS_C02 = CHECKS_C05 = CHECKS_C12 = None
CHECKS = {
 "C01": dict(level=MC, design="7/C01", technique="TLA+ trace validation: Polar's closed forms at n=0..N bound to Moment() of the LoopDist semantics machine, checked by TLC",
   text="Every closed form Polar returns for a corpus of hand-written shapes, repository benchmarks and generated programs is evaluated at each n <= N and each sampled parameter point and must equal the expectation computed by the explicit TLA+ semantics (spec/LoopDist.tla) that TLC executes exactly; finite-state programs are additionally decided for all n by the order-bound argument when N is large enough. Bounded in programs, parameter points and n; exhaustive over the probabilistic paths of every program. Further parts: spec -> code replay of every program of a bounded grammar enumerated by TLC with its exact moment sequences (spec/ProgSpace.tla); programs with Normal / Uniform / Laplace draws decided through finitely supported laws with the same moments up to order 3 or 5; closed forms that are polynomials in probabilities of abstracted conditions evaluated at P(condition) computed by the semantics.",
   note="Trusted: TLC, spec/Exact.tla (self-tested), the text renderer / Polar's parser for repository files (judged by C19), sympy for evaluating closed forms at integer n."),
 "X02": dict(level=MC, design="7/C02", technique="TLA+ refinement under projection: source program and the program observed after every normalisation pass stepped side by side in TLC, joint law of source variables compared at every iteration",
   text="The program after each pass that actually ran (recorded by run-time wrappers around Transformer.execute) is exported statement by statement and executed by the same TLA+ semantics as the source program; clause equiv requires equal joint distributions over the source variables at every iteration boundary, auxiliaries poisoned at start. Three option settings quick, four thorough. Also: the structural facts observed after every pass must be steps of spec/Pipeline.tla (pass contracts; conformance information, not a violation), and for conditions abstracted as Bernoulli events the program with the independent stand-in draws must have the source's law on the variables that do not depend on the condition.",
   note="Trusted: the exporter of Polar's Program objects (reads public fields only), TLC, Exact. Passes that introduce an abstracted probability symbol are skipped."),
 "C03": dict(level=MC, design="7/C03", technique="TLA+ trace validation of every recurrence equation: expectation identity along the LoopDist behaviour and pointwise identity on every reachable store (induction), plus structural closedness",
   text="For every equation of every system get_recurrences builds: recorded initial value = E_0[M]; E_n[M] = E_{n-1}[rhs] at every step; and for every reachable store s, E[M(next)|s] = rhs(s), which with the initial value is an inductive proof for all n on finite-state programs. Closedness / constant coefficients checked structurally; pop orders of the real monomial worklist under several hash seeds must be behaviours of spec/Worklist.tla (model-checked over all dependency relations on 4 nodes) and give the same system.",
   note="The judged program is Polar's normalized program as exported; its equivalence with the source is C02."),
 "C04": dict(level=MC, design="7/C04", technique="TLC enumerates complete families of small linear systems (spec/LinRecFamily.tla) replayed into Polar's solvers; returned closed forms trace-validated against the machine x'=Ax+b (spec/LinRec.tla)",
   text="All 2x2 integer systems over {-2..2} x vectors over {-1,0,1} (and inhomogeneous / 3x3 families) are enumerated by TLC with their exact behaviours; Polar's acyclic and forced cyclic solver, exact and numeric root modes, must reproduce every component at n = 0..9, which by the order bound decides all n for exact closed forms. Fixed families cover nilpotent, Jordan, complex, irrational, parametric cases.",
   note="TLC enumerates the complete families; the replay into Polar takes a seeded sample of them (300 systems quick, 4300 thorough) plus the fixed families; numeric modes use a stated tolerance."),
 "X05": dict(level=MC, design="7/C05", technique="TLC executes the normalized program under the IR semantics and evaluates the type invariant on every intermediate store of every path and iteration",
   text="Inferred Finite types (not user-declared ones) must contain the value of the variable in every store that exists after any assignment in any iteration, including frozen iterations after the guard became false; type_fp_iterations in {100,1} quick, {100,1,2} thorough. The fixed-point typer itself is a machine (spec/Typer.tla, one action per sweep): the state recorded after every real sweep must equal the model's.",
   note="Depth-bounded for infinite-state programs; exhaustive over paths up to N iterations."),

 "C06": dict(level=MC, design="7/C06", technique="TLA+ trace validation: every printed basis polynomial evaluated on goal quantities computed by the LoopDist semantics (clause inv) at every n past the listed special cases",
   text="Goal quantities (moments, central moments, cumulants, variable values) are computed by TLC from the source program, or from a deterministic companion loop for tuples of exponential polynomials given directly to InvariantIdeal; each reported basis element must evaluate to exactly 0 for K < n <= N.",
   note="Bounded in n and in the subject list (12 programs, 18 fixed + seeded random tuples); rational bases for direct tuples."),
 "C07": dict(level=MC, design="7/C07", technique="bounded completeness: all relations up to degree d found by exact linear algebra on TLC-computed goal sequences, re-verified by TLC (clause inv) beyond the C-finite order bound, then tested for membership in the reported ideal",
   text="Every polynomial relation of total degree <= d that the semantic goal sequences satisfy (verified by TLC on a window longer than the order bound for linear deterministic subjects) must lie in the ideal generated by Polar's reported basis; an empty basis must mean no relation exists.",
   note="Degree-bounded (2 quick / 3 thorough); sympy nullspace and Groebner containment (on the printed basis, not Polar's code path) are trusted."),
 "C09": dict(level=MC, design="7/C09", technique="TLA+ trace validation of the moment-given-termination sequence against E[M ; not guard]/P(not guard) of the source program (clause cmom), aligned and lagged",
   text="get_moment_given_termination evaluated at every n is compared with the conditional expectation given the guard is false computed by the semantics; the known one-iteration lag (finding D9) is recognised by a second, lagged clause so that any other deviation is still reported.",
   note="The limit n -> infinity is not decided by the spec: the reported after-loop values (raw, central, cumulant) are compared outside TLC with far terms of the validated sequence. KNOWN-FINDING D9 is printed while it persists."),
 "C10": dict(level=MC, design="7/C10", technique="dual-number semantics in TLA+: the parameter is seeded p0 + eps in the abstract program, the eps-part of Moment() is the exact derivative; both Polar sensitivity methods trace-validated against it",
   text="Sensitivity recurrences (DiffRecBuilder) and the differentiated closed form are both bound at every n <= N and 2 parameter points to the derivative carried by the dual-number scalars of spec/Exact.tla through the LoopDist behaviour; for fixed templates and some generated programs the values the sensitivity action itself prints (driven through the argument parser with --at_n) are validated the same way.",
   note="Parameters in probabilities, coefficients and symbolic initial values."),
 "C11": dict(level=MC, design="7/C11", technique="TLA+ trace validation: central moments from the definition and cumulants from the set-partition formula on the exact law vs Polar's conversions of its closed forms",
   text="For orders k <= 4, Polar's central moments and cumulants evaluated at every n must equal sum w (M - EM)^k and the partition-formula cumulant computed by TLC on the exact distribution.",
   note="Also: printed tail bounds (clauses tailU/tailL with the stated assumption evaluated by the spec), Gram-Charlier densities (exact normal moments against partition-formula raw moments, orders up to 7) and Cornish-Fisher polynomials (transcribed standard expansion, five cumulants) in spec/Dists.tla; cumulants on the expansion path with --at_n."),
 "X12": dict(level=MC, design="7/C12", technique="exhaustive enumeration of the simulator's random resolutions (scripted random sources) trace-validated against the path machine spec/LoopSem.tla; induced distribution compared with LoopDist; TLC-generated behaviours replayed into the simulator",
   text="Every resolution of every random call of Simulator.simulate up to N iterations is a recorded run; each must be a behaviour of LoopSem (same alternatives, probabilities, guard decisions, successor stores), runs must be distinct and their weights grouped by final store must equal the lifted distribution. Conversely TLC-simulated behaviours are forced onto the simulator and stores compared.",
   note="Programs with dyadic constants (float exactness). Continuous samplers: numpy's primitive generators are replaced by a constant z so that every scipy draw reveals location + scale*z; the derandomised program is validated by LoopSem for z in {0, 1/2, 2}."),
 "C16": dict(level=MC, design="7/C16", technique="TLC scans every exponent vector of a box and checks soundness, independence and completeness of Polar's lattice basis with exact arithmetic in Q, Q(i), Q(sqrt d) (spec/ExpLattice.tla)",
   text="For fixed and seeded lists of rational, Gaussian and real-quadratic bases, every basis vector must be a relation, the basis must have full rank, and every relation in [-B,B]^k must be an integer combination of the basis.",
   note="Completeness inside the box only; base lists sampled from the stated menus."),
 "C17": dict(level=MC, design="7/C17", technique="every option combination is a separate trace of the same LoopDist behaviour (clause mom / momI with the is_exact rule)",
   text="cond2arithm, transform_categoricals, forced cyclic solver, declared vs inferred types and the numeric root options are each validated against the same semantics, so any two settings agree; results flagged exact must be equal, rounded ones within a stated tolerance.",
   note="force_cyclic_solver is passed through a run-time wrapper (not reachable from the CLI)."),
 "C19": dict(level=MC, design="7/C19", technique="spellings of one abstract program: Polar's parse of each text refines the abstract program (clause equiv) and its closed forms equal the abstract program's moments; ill-formed texts and invalid probability vectors must be rejected",
   text="Seven spellings per template (whitespace/comments, parentheses, decimals, explicit last probability, temporaries, nested else-if) are each validated against the generator's abstract program; 33 texts outside the grammar / with invalid probability vectors must end in an error.",
   note="Block structure of the grammar: spec/LineGrammar.tla enumerates every sequence of line categories up to a bound with its verdict, Polar's parser must accept exactly the well-formed ones (20 000 texts quick). Inside a line (expressions, conditions) rejection is checked for listed mutation classes only."),
 "C20": dict(level=MC, design="7/C20", technique="spec/Session.tla models the process-global state; TLC enumerates all bounded histories, predicts hidden state and name collisions; behaviours replayed in one real process and compared with fresh-process references; goal orders and hash seeds replayed",
   text="All histories up to 3 (quick) / 4 (thorough) actions over 5 programs x 3 option toggles; after every action the real unique-name counter, settings and class flag must equal the model's, and every result must equal the fresh reference up to renaming of generated symbols.",
   note="Alphabet of programs is fixed; caches are not modelled (their keys are object identities or pure function arguments)."),

 "C02": CHECKS_C02,
 "C05": CHECKS_C05,
 "C08": dict(level=MC, design="7/C08, 14.3", technique="TLA+ reference table of the distribution families (spec/Dists.tla) validated row by row against Polar's distribution classes; moment-only draws with variable parameters validated by clause cdraw of LoopTrace",
   text="50 distributions x orders k <= 6: get_moment, mgf/cf derivatives at 0, support, discreteness, mgf domain and real samples must agree with Dists.tla (defining sums for discrete families, integration-by-parts recurrences for continuous ones, affine lemma checked by TLC). Draws whose parameters depend on finitely valued variables: E[m z^k] from Polar's closed forms equals the mixture of family moments computed by the spec on the source program.",
   note="Continuous families use transcribed recurrences as reference (TLA+ cannot integrate); TruncNormal moments are not decided. KNOWN-FINDING D17."),
 "C12": CHECKS_C12,
 "C13": dict(level=MC, design="7/C13, 14.3", technique="exact interval arithmetic in TLA+ (spec/FuncMoment.tla) over 35-digit enclosures of sin/cos/exp at the support points; Polar's values must lie inside; mgf-domain table decides existence",
   text="For Bernoulli / Categorical / DiscreteUniform draws and constants, 388 values of E[X^a sin^b X cos^c X] and E[X^a exp(cX)] in default and exact mode must lie in the interval TLC computes from the defining finite sum; for Exponential / Gamma / Laplace the outcome of a request for E[exp(cX)] (answered or rejected) must agree with the mgf domain.",
   note="Finite-support fragment only; continuous X not decided; enclosures from mpmath are trusted; refusals of existing moments are counted, not judged here."),
 "C14": dict(level=MC, design="7/C14, 14.3", technique="TLA+ trace validation: E[Q(state_n)] from the semantics of the unsolvable source loop bound to the synthesized closed form f(n) (clause mom); synthesized solvable loops stepped side by side with the original (clause momeq)",
   text="Every (Q, f) returned by synth_inv (k = 1 and general case, degrees 1-2 quick / 1-3 thorough) for the repository's unsolvable loops and four extra shapes is checked at n = 0..3 and two instantiations of initial values and free coefficients; every synthesized loop must reproduce the first moments of retained variables and of Q.",
   note="Bounded N = 3 (doubly exponential growth); moment-level equivalence on first moments."),
 "C15": dict(level=MC, design="7/C15, 14.3", technique="spec/BayesNet.tla decides Accepts / Assemble / joint law / conditional moments for every BIF rendering; generated loop validated by LoopDist (clause prob)",
   text="8 networks x 10 renderings (table / default / entry notations and six kinds of broken files): Polar must accept exactly what the spec accepts with equal CPTs; one iteration of the generated loop must have the network's joint law on every full assignment; exact-inference and sampling-time answers must equal E[X^k | ev] and 1/P(ev) computed by enumeration in the spec.",
   note="Networks of 2-4 variables, dyadic CPT entries."),
 "C18": dict(level=MC, design="7/C18, 14.3", technique="programs of the documented class (by construction; finiteness of condition variables confirmed by TLC clause supp on the source program) with the outcome rule: refusal or goal refusal = violation, accepted results validated like C01",
   text="11 shapes named in the property and generated in-class programs (with and without type declarations) must be accepted and every goal over effective variables must get a closed form equal to the semantics; refusals are violations unless they match an open known finding (D12, D21).",
   note="Timeouts are not judged. KNOWN-FINDING D12, D21."),
}

for _a, _b in (("C02", "X02"), ("C05", "X05"), ("C12", "X12")):
    CHECKS[_a] = CHECKS.pop(_b)


def entry(pid, c):
    return {"property_id": pid, "quick_cmd": f"./check {pid} --tier quick", "thorough_cmd": f"./check {pid} --tier thorough",
            "evidence_file": f"/verif/evidence/{pid}.json", "replay_cmd_template": f"./check {pid} --replay {{path}}",
            "engine": "tlc-trace-validation",
            "level_claimed": {"category": c["level"], "text": c["text"], "design_ref": c["design"]},
            "level_note": c["note"], "technique": c["technique"]}

enabled = os.environ.get("MANIFEST_ENABLE", "").split(",") if os.environ.get("MANIFEST_ENABLE") else None
state_file = os.path.join(V, "tools", "enabled_checks.json")
enabled = json.load(open(state_file)) if os.path.exists(state_file) else []
m = {"version": 1,
     "setup_cmd": "./setup.sh",
     "hooks": {"guard": "POLAR_VERIF", "enable": "POLAR_VERIF=1 is set by the harness worker; it only switches run-time wrappers on (no source hooks in /repo)",
               "baseline_off_cmd": "cd /repo && /venv/bin/python -m pytest -ra -q -p no:cacheprovider --timeout=900 --continue-on-collection-errors",
               "source_commits": [], "add_only": True},
     "engines": [{"name": "tlc-trace-validation", "path": "/verif/spec", "serves_properties": sorted(enabled),
                  "kind_free_text": "explicit TLA+ specifications (Exact, LoopDist, LoopTrace, LinRec, ...) checked by TLC 1.8; Python harness binds them to Polar by trace validation and replay"}],
     "checks": [entry(p, CHECKS[p]) for p in props if p in CHECKS and p in enabled],
     "notes": "Repairs of genuine defects are 'fix:' commits in /repo, listed in known_findings.json. See DESIGN.md.",
     "not_applicable": [{"property_id": p, "reason": "check not built/validated yet (construction in progress, see DESIGN.md section 13)"}
                        for p in props if not (p in CHECKS and p in enabled)]}
json.dump(m, open(os.path.join(V, "MANIFEST.json"), "w"), indent=1)
print("checks:", [c["property_id"] for c in m["checks"]])
