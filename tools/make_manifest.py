#!/usr/bin/env python3
"""Regenerates /verif/MANIFEST.json from the table below (single source of truth for the interface)."""
import json, os
V = os.path.dirname(os.path.dirname(os.path.abspath(__file__)))
props = [json.loads(l)["id"] for l in open(os.path.join(V, "properties.jsonl"))]

MC = "model_checking"
CHECKS = {
 "C01": dict(level=MC, design="7/C01", technique="TLA+ trace validation: Polar's closed forms at n=0..N bound to Moment() of the LoopDist semantics machine, checked by TLC",
   text="Every closed form Polar returns for a corpus of hand-written shapes, repository benchmarks and generated programs is evaluated at each n <= N and each sampled parameter point and must equal the expectation computed by the explicit TLA+ semantics (spec/LoopDist.tla) that TLC executes exactly; finite-state programs are additionally decided for all n by the order-bound argument when N is large enough. Bounded in programs, parameter points and n; exhaustive over the probabilistic paths of every program.",
   note="Trusted: TLC, spec/Exact.tla (self-tested), the text renderer / Polar's parser for repository files (judged by C19), sympy for evaluating closed forms at integer n."),
 "C02": dict(level=MC, design="7/C02", technique="TLA+ refinement under projection: source program and the program observed after every normalisation pass stepped side by side in TLC, joint law of source variables compared at every iteration",
   text="The program after each pass that actually ran (recorded by run-time wrappers around Transformer.execute) is exported statement by statement and executed by the same TLA+ semantics as the source program; clause equiv requires equal joint distributions over the source variables at every iteration boundary, auxiliaries poisoned at start. Three option settings quick, four thorough.",
   note="Trusted: the exporter of Polar's Program objects (reads public fields only), TLC, Exact. Passes that introduce an abstracted probability symbol are skipped."),
 "C03": dict(level=MC, design="7/C03", technique="TLA+ trace validation of every recurrence equation: expectation identity along the LoopDist behaviour and pointwise identity on every reachable store (induction), plus structural closedness",
   text="For every equation of every system get_recurrences builds: recorded initial value = E_0[M]; E_n[M] = E_{n-1}[rhs] at every step; and for every reachable store s, E[M(next)|s] = rhs(s), which with the initial value is an inductive proof for all n on finite-state programs. Closedness / constant coefficients checked structurally.",
   note="The judged program is Polar's normalized program as exported; its equivalence with the source is C02."),
 "C04": dict(level=MC, design="7/C04", technique="TLC enumerates complete families of small linear systems (spec/LinRecFamily.tla) replayed into Polar's solvers; returned closed forms trace-validated against the machine x'=Ax+b (spec/LinRec.tla)",
   text="All 2x2 integer systems over {-2..2} x vectors over {-1,0,1} (and inhomogeneous / 3x3 families) are enumerated by TLC with their exact behaviours; Polar's acyclic and forced cyclic solver, exact and numeric root modes, must reproduce every component at n = 0..9, which by the order bound decides all n for exact closed forms. Fixed families cover nilpotent, Jordan, complex, irrational, parametric cases.",
   note="Quick tier replays a seeded sample of the enumerated family; numeric modes use a stated tolerance."),
 "C05": dict(level=MC, design="7/C05", technique="TLC executes the normalized program under the IR semantics and evaluates the type invariant on every intermediate store of every path and iteration",
   text="Inferred Finite types (not user-declared ones) must contain the value of the variable in every store that exists after any assignment in any iteration, including frozen iterations after the guard became false; type_fp_iterations in {100,1} quick, {100,1,2} thorough.",
   note="Depth-bounded for infinite-state programs; exhaustive over paths up to N iterations."),
}

def entry(pid, c):
    return {"property_id": pid, "quick_cmd": f"./check {pid} --tier quick", "thorough_cmd": f"./check {pid} --tier thorough",
            "evidence_file": f"/verif/evidence/{pid}.json", "replay_cmd_template": f"./check {pid} --replay {{path}}",
            "engine": "tlc-trace-validation",
            "level_claimed": {"category": c["level"], "text": c["text"], "design_ref": c["design"]},
            "level_note": c["note"], "technique": c["technique"]}

enabled = os.environ.get("MANIFEST_ENABLE", "").split(",") if os.environ.get("MANIFEST_ENABLE") else None
state_file = os.path.join(V, "tools", "enabled_checks.json")
enabled = json.load(open(state_file)) if os.path.exists(state_file) else []
m = {"version": 1,
     "setup_cmd": "./setup.sh",
     "hooks": {"guard": "POLAR_VERIF", "enable": "POLAR_VERIF=1 is set by the harness worker; it only switches run-time wrappers on (no source hooks in /repo)",
               "baseline_off_cmd": "cd /repo && /venv/bin/python -m pytest -ra -q -p no:cacheprovider --timeout=900 --continue-on-collection-errors",
               "source_commits": [], "add_only": True},
     "engines": [{"name": "tlc-trace-validation", "path": "/verif/spec", "serves_properties": sorted(enabled),
                  "kind_free_text": "explicit TLA+ specifications (Exact, LoopDist, LoopTrace, LinRec, ...) checked by TLC 1.8; Python harness binds them to Polar by trace validation and replay"}],
     "checks": [entry(p, CHECKS[p]) for p in props if p in CHECKS and p in enabled],
     "notes": "Repairs of genuine defects are 'fix:' commits in /repo, listed in known_findings.json. See DESIGN.md.",
     "not_applicable": [{"property_id": p, "reason": "check not built/validated yet (construction in progress, see DESIGN.md section 13)"}
                        for p in props if not (p in CHECKS and p in enabled)]}
json.dump(m, open(os.path.join(V, "MANIFEST.json"), "w"), indent=1)
print("checks:", [c["property_id"] for c in m["checks"]])
