#!/bin/sh
# runs every check's quick tier under several seeds (evidence redirected); prints one line per run
cd "$(dirname "$0")/.."
OUT=${SWEEP_OUT:-/tmp/sweep}
mkdir -p $OUT
for seed in "$@"; do
  for c in C01 C02 C03 C04 C05 C06 C07 C08 C09 C10 C11 C12 C13 C14 C15 C16 C17 C18 C19 C20; do
    VERIF_SEED=$seed VERIF_EVIDENCE_DIR=$OUT/evid_$seed ./check $c > $OUT/${c}_$seed.log 2>&1
    echo "$c seed=$seed exit=$? viol=$(grep -c '^VIOLATION' $OUT/${c}_$seed.log) known=$(grep -c '^KNOWN' $OUT/${c}_$seed.log)"
  done
done
