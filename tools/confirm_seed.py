#!/usr/bin/env python3
"""Confirms a seeded change produced by a sub-agent: patch applies, demo passes on the clean tree and fails
with the patch, and the repository's test suite has the same outcome per test with and without it.
usage: confirm_seed.py <seed-name> <dir with patch.diff demo.py meta.json>   -> /verif/seeded/<seed-name>/"""
import json, os, shutil, subprocess, sys, re

name, src = sys.argv[1], sys.argv[2]
wt = f"/tmp/confirm/{name}"
os.makedirs("/tmp/confirm", exist_ok=True)
subprocess.run(["git", "-C", "/repo", "worktree", "remove", "--force", wt], capture_output=True)
subprocess.run(["git", "-C", "/repo", "worktree", "add", "-q", "--detach", wt, "HEAD"], check=True)
res = {"name": name}
try:
    def demo():
        p = subprocess.run(["timeout", "600", "/venv/bin/python", os.path.join(src, "demo.py"), wt], cwd=wt,
                           capture_output=True, text=True)
        return p.returncode, (p.stdout + p.stderr)[-400:]
    def tests():
        p = subprocess.run("timeout 1500 /venv/bin/python -m pytest -q -p no:cacheprovider --timeout=900 -rA 2>&1 | grep -E '^(PASSED|FAILED|ERROR) ' | sort",
                           shell=True, cwd=wt, capture_output=True, text=True)
        return p.stdout
    base_file = "/tmp/confirm/baseline_tests.txt"
    if not os.path.exists(base_file):
        open(base_file, "w").write(tests())
    res["demo_clean"] = demo()
    a = subprocess.run(["git", "apply", os.path.join(src, "patch.diff")], cwd=wt, capture_output=True, text=True)
    res["apply"] = a.returncode
    res["demo_patched"] = demo()
    t = tests()
    res["tests_same_as_baseline"] = (t == open(base_file).read())
    res["tests_passed"] = t.count("PASSED ")
    res["ok"] = (res["demo_clean"][0] == 0 and res["apply"] == 0 and res["demo_patched"][0] != 0 and res["tests_same_as_baseline"])
finally:
    subprocess.run(["git", "-C", "/repo", "worktree", "remove", "--force", wt], capture_output=True)
if res.get("ok"):
    dst = f"/verif/seeded/{name}"
    os.makedirs(dst, exist_ok=True)
    for f in ("patch.diff", "demo.py"):
        shutil.copy(os.path.join(src, f), dst)
    meta = json.load(open(os.path.join(src, "meta.json")))
    meta["confirmed"] = {"demo_clean_exit": res["demo_clean"][0], "demo_patched_exit": res["demo_patched"][0],
                         "tests_same_as_baseline": True, "tests_passed": res["tests_passed"],
                         "how": "tools/confirm_seed.py in a scratch worktree of /repo HEAD (removed afterwards)"}
    json.dump(meta, open(os.path.join(dst, "meta.json"), "w"), indent=1)
print(json.dumps(res))
