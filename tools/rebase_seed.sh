#!/bin/sh
# re-creates seeded/<seed>/patch.diff against /repo HEAD when a fix: commit touched the same lines (patch(1) with fuzz);
# the original is kept as patch_original_pre_fix.diff.  usage: rebase_seed.sh <seed>
seed=$1
wt=/tmp/rebase/$seed
mkdir -p /tmp/rebase
git -C /repo worktree remove --force $wt 2>/dev/null
git -C /repo worktree add -q --detach $wt HEAD || exit 2
cd $wt
if git apply --check /verif/seeded/$seed/patch.diff 2>/dev/null; then echo "$seed applies as is"; cd /; git -C /repo worktree remove --force $wt; exit 0; fi
patch -p1 --fuzz=3 --no-backup-if-mismatch < /verif/seeded/$seed/patch.diff || { echo "$seed: patch(1) failed"; cd /; git -C /repo worktree remove --force $wt; exit 1; }
find . -name '*.orig' -delete; find . -name '*.rej' -delete
[ -f /verif/seeded/$seed/patch_original_pre_fix.diff ] || cp /verif/seeded/$seed/patch.diff /verif/seeded/$seed/patch_original_pre_fix.diff
git diff > /verif/seeded/$seed/patch.diff
cd /; git -C /repo worktree remove --force $wt
echo "$seed rebased"
