#!/usr/bin/env python3
"""Regenerates seeded/SUMMARY.md from seeded/*/meta.json and detected.json"""
import glob, json, os
V = os.path.dirname(os.path.dirname(os.path.abspath(__file__)))
rows = []
for d in sorted(glob.glob(os.path.join(V, "seeded", "C*"))):
    name = os.path.basename(d)
    meta = json.load(open(os.path.join(d, "meta.json")))
    det = json.load(open(os.path.join(d, "detected.json"))) if os.path.exists(os.path.join(d, "detected.json")) else {}
    res = ", ".join(f"{c}: {'DETECTED' if v['exit'] == 1 and v['violations'] else ('error' if v['exit'] == 2 else 'missed')} ({v['tier']}, {v['wall_s']} s)" for c, v in det.items()) or "not run yet"
    rows.append(f"| {name} | {meta.get('property')} | {str(meta.get('summary'))[:160].replace('|', '/')} | {res} |")
open(os.path.join(V, "seeded", "SUMMARY.md"), "w").write(
    "# Seeded changes and which checks detect them\n\n| seed | property | change | checks run -> outcome |\n|---|---|---|---|\n" + "\n".join(rows) + "\n")
print(len(rows), "seeds")
