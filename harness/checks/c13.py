"""C13 (finite-support fragment): Sin/Cos/Exp moments are the true expectations; non-existing exponential
moments are rejected.

Values: for X ~ Bernoulli / Categorical / DiscreteUniform and exponent triples (a, b, c), the values Polar uses
for E[X^a sin^b X cos^c X] and E[X^a exp(cX)] (FunctionalAssignment.get_func_moment, default and exact mode),
and Sin/Cos/Exp of constants, are judged by spec/FuncMoment.tla: TLC evaluates the defining finite sum in exact
interval arithmetic from 35-digit enclosures of sin(j), cos(j), exp(j) (mpmath, trusted) and the reported value
must lie in the interval (widened by the documented 20-digit rounding in default mode).
Existence: for Exponential / Gamma / Laplace draws the outcome of get_exp_moment (value or
FunctionalAssignmentException) must agree with the mgf-domain table of spec/Dists.tla (checked by C08's
mgf-exists clause) -- here the harness compares the outcome with the same rational comparison.
Continuous X (values involving exp(-sigma^2/2) etc.) are not decided (DESIGN.md section 8)."""
import json
import os
import random
import shutil
import subprocess
import tempfile
from fractions import Fraction as F

import mpmath

from .. import encode as E, pool, tlc
from ..report import Run


def q(x):
    x = F(x)
    return {"n": E.enc_z(x.numerator), "d": E.enc_z(x.denominator)}


def enclosure(fn, x, digits=35):
    mpmath.mp.dps = digits + 10
    v = fn(mpmath.mpf(x))
    s = mpmath.nstr(v, digits, strip_zeros=False)
    c = F(s)
    eps = (abs(c) + 1) * F(1, 10 ** (digits - 3))
    return {"lo": q(c - eps), "hi": q(c + eps)}


def dists(quick):
    D = []
    for p in ("1/2", "1/3", "3/4", "1", "0"):
        D.append(("Bernoulli", [p], [(0, 1 - F(p)), (1, F(p))]))
    for ps in (["1/2", "1/4", "1/4"], ["1/3", "2/3"], ["1/5", "1/5", "1/5", "2/5"]):
        D.append(("Categorical", ps, [(i, F(x)) for i, x in enumerate(ps)]))
    for a, b in ((0, 2), (1, 3), (-1, 1), (2, 2), (0, 1), (-2, 0)):
        D.append(("DiscreteUniform", [str(a), str(b)], [(v, F(1, b - a + 1)) for v in range(a, b + 1)]))
    return D


def exponents(quick):
    ex = []
    for a in range(0, 3):
        for b in range(0, 3):
            for c in range(0, 3):
                if b + c > 0:
                    ex.append((a, b, c, "trig"))
    for a in range(0, 3):
        for c in range(1, 4):
            ex.append((a, 0, c, "exp"))
    return ex


PROGRAMS = [
    ("init_reassign", "c = 1\ns = Sin(c)\nc = 2\nx = 0\nz = 0\ny = 0\nwhile true:\n    x = DiscreteUniform(1, 2)\n    y = Cos(x)\n    z = z + y\n    c = c + 1\nend\n",
     ["s", "z", "y", "x*y"]),
    ("exp_bernoulli", "x = 0\ne = 1\nw = 0\nwhile true:\n    x = Bernoulli(1/2)\n    e = Exp(x)\n    w = w + e*x + e\nend\n", ["e", "w", "e*x", "e**2"]),
    ("sin_cos_product", "x = 0\ns = 0\nc = 1\ny = 0\nwhile true:\n    x = DiscreteUniform(0, 2)\n    s = Sin(x)\n    c = Cos(x)\n    y = y + s*c + x*s\nend\n",
     ["s", "c", "y", "s*c", "x*c"]),
    ("constants", "a = Exp(2)\nb = Cos(0)\nd = Sin(1/2)\nx = 0\nwhile true:\n    k = Exp(-1)\n    x = x + a*k + b - d\nend\n", ["a", "x", "b", "d"]),
    ("reference_chain", "x = 0\nu = 0\ns = 0\nt = 0\nwhile true:\n    x = Bernoulli(1/3)\n    u = x\n    s = Sin(u)\n    t = t + s + u*s\nend\n", ["s", "t", "u*s"]),
    ("previous_value", "x = 1\ny = 0\nz = 0\nwhile true:\n    x = DiscreteUniform(1, 2)\n    z = z + y\n    y = Cos(x)\nend\n", ["y", "z", "y*x", "y*z"]),
    # the previous value of a functional variable is read before it is reassigned: old and new value in one monomial
    ("old_and_new_value", "a = 0\ns = 0\ny = 0\nwhile true:\n    a = Bernoulli(1/2)\n    y = s*a\n    s = Sin(a)\nend\n", ["y*s", "y", "s", "y*s*a"]),
    ("old_value_in_condition", "a = 0\ns = 0\nc = 0\nwhile true:\n    a = Bernoulli(1/2)\n    if a == 1:\n        c = c + s\n    end\n    s = Cos(a)\nend\n", ["c", "c*s", "s"]),
    # a functional variable computed in the initial block from a draw that the loop redraws (s stays what it was)
    ("init_func_of_redrawn", "a = Bernoulli(1/2)\ns = Sin(a)\nx = 0\nwhile true:\n    a = Bernoulli(1/3)\n    x = x + a*s\nend\n", ["s", "x", "a*s"]),
    # the initial block reads a functional variable and then reuses it for another function value
    ("init_reuse", "a = Bernoulli(1/3)\ns = Sin(a)\ny = s*a\ns = Cos(a)\nz = y*s\nw = 0\nwhile true:\n    w = w + z\nend\n", ["z", "w", "y", "s"]),
    # conditioned functional assignments: in a branch, under the loop guard, nested, with a constant argument
    ("cond_exp_of_draw", "f = 0\ny = 0\nu = 0\ns = 0\nwhile true:\n    f = Bernoulli(1/2)\n    u = DiscreteUniform(0, 1)\n    if f == 1:\n        y = Exp(u)\n    end\n    s = s + y\nend\n",
     ["y", "s", "y*u", "y**2"]),
    ("cond_sin_else", "f = 0\ny = 0\nu = 0\ns = 0\nwhile true:\n    f = Bernoulli(1/3)\n    u = DiscreteUniform(1, 2)\n    if f == 1:\n        y = Sin(u)\n    else:\n        s = s + y\n    end\nend\n",
     ["y", "s", "y*f"]),
    ("guarded_cos", "stop = 0\ny = 0\nu = 0\nt = 0\nwhile stop == 0:\n    u = DiscreteUniform(0, 2)\n    y = Cos(u)\n    t = t + y\n    stop = Bernoulli(1/4)\nend\n",
     ["y", "t", "y*stop"]),
    ("cond_const_arg", "f = 0\ny = 0\ns = 0\nwhile true:\n    f = Bernoulli(1/2)\n    if f == 0:\n        y = Exp(1)\n    end\n    s = s + y\nend\n", ["y", "s"]),
    ("cond_on_argument", "y = 0\nu = 0\ns = 0\nwhile true:\n    u = DiscreteUniform(0, 2)\n    if u > 0:\n        y = Sin(u)\n    end\n    s = s + y*u\nend\n", ["y", "s", "y*u"]),
    ("categorical_arg", "x = 0\ns = 0\nq = 0\nwhile true:\n    x = Categorical(1/2, 1/4, 1/4)\n    s = Sin(x)\n    q = q + s\nend\n", ["s", "q"]),
]


def b_moments_tol(ctx):
    """closed forms that contain 20-digit roundings of transcendental values: compared with an enclosure"""
    from .. import absyn, campaign as C
    if ctx.res.get("stage"):
        raise C.SkipTrace("refused")
    P = ctx.srcP
    for g, go in ctx.res.get("goals", {}).items():
        if "values" not in go:
            ctx.note("goal_exception")
            continue
        poly = absyn.mono_of(g)
        if any(v not in P["vars"] for v, _ in poly[0][1]):
            continue
        for n, val in enumerate(go["values"][ctx.pi][:ctx.N + 1]):
            x = F(val["q"]) if "q" in val else (F(val["approx"]) if "approx" in val else None)
            if x is None:
                ctx.note("tol_" + next(iter(val)))
                continue
            eps = (abs(x) + 1) * F(1, 10 ** 15)
            ctx.claim(n, {"t": "momI", "pi": ctx.src, "poly": poly, "lo": x - eps, "hi": x + eps, "tag": g})


def b_func_args(ctx):
    """arguments of functional assignments stay inside the function tables given to the spec"""
    from ..encode import FUNC_ARGS
    P = ctx.srcP

    def walk(stmts):
        for s_ in stmts:
            if s_[0] == "func" and isinstance(s_[3], str):
                for n in range(ctx.N + 1):
                    ctx.claim(n, {"t": "supp", "pi": ctx.src, "v": s_[3], "vals": list(FUNC_ARGS), "start": P["s0"].get(s_[3], 0),
                                  "exempt": True, "tag": "table:" + s_[3]})
            elif s_[0] == "if":
                for b in s_[2]:
                    walk(b)
                walk(s_[3])
    walk(P["init"])
    walk(P["body"])


def program_part(ctx_run, quick):
    """whole programs with Sin / Cos / Exp assignments: the functions enter the spec as tables of 34-digit values"""
    from .. import campaign as C
    from ..driver import analysis_check
    items = [{"id": "fprog-" + name, "text": text, "T": None, "goals": goals, "points": [{}], "origin": "functional program " + name}
             for name, text, goals in PROGRAMS]
    # one recurrence builder answers all goals of an analysis (as the CLI does): the same goals in the opposite order
    items += [{"id": "fprog-" + name + "-rev", "text": text, "T": None, "goals": list(reversed(goals)), "points": [{}],
               "origin": "functional program " + name + " (goals reversed)"} for name, text, goals in PROGRAMS]
    return items


def main(tier, seed):
    from .. import campaign as C
    from ..driver import analysis_check
    holder = {}

    def post(ctx):
        return table_part(ctx["run"])
    items = program_part(None, tier == "quick")
    return analysis_check("C13", tier, seed, items=items, want=["parsed", "moments"],
                          builders=[C.b_source, b_func_args, b_moments_tol], N=4, post=post, timeout=150,
                          variants=[("", {}), ("-exact", {"exact_func_moments": True}), ("-c2a", {"cond2arithm": True, "exact_func_moments": True})],
                          assumptions=["enclosures of sin, cos, exp at the support points come from mpmath (35 digits) and are trusted",
                                       "default mode values may deviate by 1e-18 relative (documented 20-digit rounding), exact mode by 1e-30",
                                       "only finitely supported X and constants; continuous X is not decided",
                                       "program level: Sin/Cos/Exp enter the spec as tables of 34-digit rational values on half-integers; closed forms are compared with a 1e-15 relative enclosure"])


def table_part(run):
    quick = run.tier == "quick"
    DS = dists(quick)
    EX = exponents(quick)
    items = []
    for i, (name, params, pts) in enumerate(DS):
        items.append({"fid": f"f{i}", "name": name, "params": params, "exponents": EX})
    cont = [("DistExp", ["2"], "exponential", [F(2)]), ("DistExp", ["1/2"], "exponential", [F(1, 2)]),
            ("Gamma", ["2", "1/2"], "gamma", [F(2), F(1, 2)]), ("Gamma", ["3", "2"], "gamma", [F(3), F(2)]),
            ("Laplace", ["0", "1/2"], "laplace", [F(0), F(1, 2)]), ("Laplace", ["1", "2"], "laplace", [F(1), F(2)]),
            ("Normal", ["0", "1"], "normal", [F(0), F(1)]), ("Uniform", ["0", "1"], "uniform", [F(0), F(1)])]
    for i, (name, params, fam, ps) in enumerate(cont):
        items.append({"fid": f"e{i}", "name": name, "params": params, "exponents": [(0, 0, c, "exp") for c in (1, 2, 3)]})
    consts = [("Sin", "1"), ("Cos", "2"), ("Exp", "1"), ("Sin", "0"), ("Cos", "0"), ("Exp", "-1"), ("Sin", "1/2"), ("Exp", "2"),
              ("Exp", "-60"), ("Exp", "-47"), ("Exp", "30")]          # very small and very large values (relative rounding)
    for i, (fn, c) in enumerate(consts):
        items.append({"fid": f"c{i}", "func": fn, "const": c, "exponents": [(k, 0, 0, "const") for k in (1, 2, 3)]})
    jobs = [{"kind": "funcmoment", "id": f"fm{i}", "items": items[i:i + 2], "timeout": 900} for i in range(0, len(items), 2)]
    res = pool.run_jobs(jobs, per_job_timeout=900)
    obs = {}
    for r in res.values():
        for o in r.get("items", []):
            obs[o["fid"]] = o
    traces = []
    refusals = []
    nclaims = 0
    for i, (name, params, pts) in enumerate(DS):
        o = obs.get(f"f{i}")
        if o is None:
            run.error(f"{name}{params}: no observation")
            continue
        points = [{"x": x, "p": q(p), "sin": enclosure(mpmath.sin, x), "cos": enclosure(mpmath.cos, x),
                   "exp": enclosure(mpmath.exp, x)} for x, p in pts if p != 0]
        claims = []
        for rec in o["claims"]:
            if "exc" in rec:
                refusals.append((f"{name}({', '.join(params)})", rec))
                continue
            tol = F(1, 10 ** 30) if rec["exact"] else F(1, 10 ** 18)
            claims.append({"a": rec["a"], "b": rec["b"], "c": rec["c"], "kind": rec["kind"], "value": q(rec["value"]), "tol": q(tol),
                           "exact": rec["exact"]})
        nclaims += len(claims)
        if claims:
            traces.append({"id": f"f{i}", "points": points, "claims": claims})
    # constants: a one-point distribution at the constant (rational constants need enclosures at that point)
    for i, (fn, c) in enumerate(consts):
        o = obs.get(f"c{i}")
        if o is None:
            continue
        x = F(c)
        pt = {"x": 1, "p": q(1), "sin": enclosure(mpmath.sin, x), "cos": enclosure(mpmath.cos, x), "exp": enclosure(mpmath.exp, x)}
        claims = []
        for rec in o["claims"]:
            if "exc" in rec:
                refusals.append((f"{fn}({c})", rec))
                continue
            k = rec["a"]
            tol = F(1, 10 ** 30) if rec["exact"] else F(1, 10 ** 18)
            if fn == "Sin":
                claims.append({"a": 0, "b": k, "c": 0, "kind": "trig", "value": q(rec["value"]), "tol": q(tol), "exact": rec["exact"]})
            elif fn == "Cos":
                claims.append({"a": 0, "b": 0, "c": k, "kind": "trig", "value": q(rec["value"]), "tol": q(tol), "exact": rec["exact"]})
            else:
                claims.append({"a": 0, "b": 0, "c": k, "kind": "exp", "value": q(rec["value"]), "tol": q(tol), "exact": rec["exact"]})
        nclaims += len(claims)
        if claims:
            traces.append({"id": f"c{i}", "points": [pt], "claims": claims})
    # existence of exponential moments of continuous draws
    nexists = 0
    for i, (name, params, fam, ps) in enumerate(cont):
        o = obs.get(f"e{i}")
        if o is None:
            continue
        ex = []
        for rec in o["claims"]:
            if rec["exact"]:
                continue
            refused_nonexistent = rec.get("exc") == "FunctionalAssignmentException"
            if "exc" in rec and not refused_nonexistent:
                continue      # another kind of failure: not an existence statement
            ex.append({"fam": fam, "ps": [q(x) for x in ps], "c": q(rec["c"]), "answered": not refused_nonexistent})
        nexists += len(ex)
        traces.append({"id": f"e{i}", "points": [], "claims": [], "exists": ex})
    verdicts = {}
    states = distinct = 0
    work = tempfile.mkdtemp(prefix="verif-fm-")
    try:
        batch = os.path.join(work, "batch.json")
        outdir = os.path.join(work, "out")
        os.mkdir(outdir)
        json.dump({"traces": traces}, open(batch, "w"))
        cfg = os.path.join(work, "f.cfg")
        open(cfg, "w").write("SPECIFICATION Spec\nINVARIANT TypeOK\nCHECK_DEADLOCK FALSE\n")
        cmd = ["java", "-XX:+UseParallelGC", "-Xmx6g", "-Xss64m", "-cp", tlc.TLC_CP, "tlc2.TLC", "-workers", "16", "-metadir",
               os.path.join(work, "meta"), "-noGenerateSpecTE", "-config", cfg, os.path.join(tlc.SPEC_DIR, "FuncMoment.tla")]
        p = subprocess.run(cmd, cwd=tlc.SPEC_DIR, env=dict(os.environ, BATCH_FILE=batch, OUT_DIR=outdir), capture_output=True,
                           text=True, timeout=3000)
        m = tlc._STATS_RE.search(p.stdout)
        if p.returncode != 0 or not m:
            run.error("TLC FuncMoment: " + p.stdout[-2500:])
        else:
            states, distinct = int(m.group(1)), int(m.group(2))
        for t in traces:
            vf = os.path.join(outdir, t["id"] + ".json")
            if os.path.exists(vf):
                verdicts[t["id"]] = json.load(open(vf))
    finally:
        shutil.rmtree(work, ignore_errors=True)
    names = {f"f{i}": f"{n}({', '.join(p)})" for i, (n, p, _) in enumerate(DS)}
    names.update({f"c{i}": f"{fn}({c})" for i, (fn, c) in enumerate(consts)})
    names.update({f"e{i}": f"{n}({', '.join(p)})" for i, (n, p, _, _) in enumerate(cont)})
    tr_by = {t["id"]: t for t in traces}
    nfail = 0
    for tid, v in verdicts.items():
        for f in v["fails"]:
            nfail += 1
            if "exists_claim" in f:
                cl = tr_by[tid]["exists"][f["exists_claim"] - 1]
                run.violation({f"{names[tid]}:exists"}, {"subject": names[tid], "clause": "existence of the exponential moment",
                                                        "order": f"{E.dec_nat(cl['c']['n']['m'])}", "answered": cl["answered"],
                                                        "spec_exists": f["spec_exists"]})
                continue
            cl = tr_by[tid]["claims"][f["claim"] - 1]
            run.violation({f"{names[tid]}:{cl['kind']}:{cl['a']},{cl['b']},{cl['c']}"},
                          {"subject": names[tid], "kind": cl["kind"], "exponents_a_b_c": [cl["a"], cl["b"], cl["c"]],
                           "exact_mode": cl["exact"],
                           "polar_value": float(F(E.dec_nat(cl["value"]["n"]["m"]) * (-1 if cl["value"]["n"]["s"] else 1),
                                                  E.dec_nat(cl["value"]["d"]["m"]))),
                           "enclosure": [float(F(E.dec_nat(f[k]["n"]["m"]) * (-1 if f[k]["n"]["s"] else 1), E.dec_nat(f[k]["d"]["m"])))
                                         for k in ("lo", "hi")]})
    # refusals of moments that exist (e.g. the zero-frequency singularity of DiscreteUniform's cf, Categorical
    # without cf/mgf) are not wrong values: C13 speaks about the values used and about non-existing moments;
    # they are counted here and belong to C18's outcome rule
    ref_kinds = {}
    for subject, rec in refusals:
        ref_kinds[rec.get("exc")] = ref_kinds.get(rec.get("exc"), 0) + 1
    return {"func_states": distinct, "func_traces": len(verdicts),
            "func_samples": [{"subject": names[t], "claims": len(tr_by[t]["claims"])} for t in list(verdicts)[:4]],
            "distributions": len(DS), "constants": len(consts), "exponent_triples": len(EX), "values_checked": nclaims,
            "values_outside_enclosure": nfail, "existence_claims": nexists,
            "refusals_of_existing_moments_not_judged_here": ref_kinds}
