"""C15: Bayesian-network import and queries agree with the network's joint law.

An abstract network (DAG, domains, CPTs with dyadic entries) is rendered as BIF text in mixes of the table /
default / entry notations, with names that need sanitising, and in deliberately broken variants (missing row,
row sum off by twice the tolerance, duplicate entries, wrong lengths).  spec/BayesNet.tla decides Accepts and
Assemble for every rendering; Polar's parser must accept exactly the renderings the spec accepts and its CPTs
must equal Assemble.  The loop Polar generates from the network is parsed and ONE iteration of spec/LoopDist on
it, projected on the network variables, must equal the joint law that BayesNet.tla computes (clause prob).
Exact-inference and sampling-time answers printed by the action are compared with E[X^k | evidence] and
1 / P(evidence) computed by enumeration of the joint law inside the spec."""
import itertools
import json
import os
import random
import shutil
import subprocess
import tempfile
from fractions import Fraction as F

from .. import absyn, campaign as C, encode as E, pool, tlc
from ..report import Run

DYADIC = [F(1, 2), F(1, 4), F(3, 4), F(1, 8), F(3, 8), F(5, 8), F(7, 8), F(1, 16)]
NAMES = ["rain", "Sprinkler", "grass-wet", "x-ray", "xray", "A", "a", "node_1", "Smoke", "T-2"]
VALUES = [["yes", "no"], ["low", "mid", "high"], ["0", "1"], ["a", "b", "c"], ["lt5", "ge5"], ["v1", "v2", "v3"]]


def rand_row(rng, k):
    while True:
        ps = [rng.choice(DYADIC) for _ in range(k - 1)]
        if sum(ps) < 1:
            return ps + [1 - sum(ps)]


def gen_net(rng, i):
    nv = rng.randint(2, 4)
    names = rng.sample(NAMES, nv)
    vars_ = []
    for v in range(nv):
        dom = list(rng.choice(VALUES))
        parents = sorted(rng.sample(range(v), min(v, rng.choice([0, 1, 1, 2])))) if v else []
        vars_.append({"name": names[v], "dom": dom, "parents": parents})
    for v in vars_:
        nrows = 1
        for p in v["parents"]:
            nrows *= len(vars_[p]["dom"])
        v["cpt"] = [rand_row(rng, len(v["dom"])) for _ in range(nrows)]
    order = list(range(nv))
    rng.shuffle(order)         # declaration order in the file (parents may come later)
    return {"id": f"net{i}", "vars": vars_, "order": order}


def fixed_nets():
    """shapes the random generator rarely hits: parents whose domain sizes differ from the child's (row addressing of a
    table with several parents), twin variables (same domain, parents and table) of which only one is a parent"""
    def rows(n, k, salt):
        out = []
        for i in range(n):
            base = [F(1 + ((i * 3 + j * 5 + salt) % 7), 16) for j in range(k - 1)]
            out.append(base + [1 - sum(base)])
        return out
    nets = []
    nets.append({"id": "fix-sizes-232", "order": [2, 0, 1], "vars": [
        {"name": "season", "dom": ["dry", "wet"], "parents": [], "cpt": rows(1, 2, 1)},
        {"name": "soil", "dom": ["sand", "loam", "clay"], "parents": [], "cpt": rows(1, 3, 2)},
        {"name": "crop", "dom": ["poor", "good"], "parents": [0, 1], "cpt": rows(6, 2, 3)}]})
    nets.append({"id": "fix-sizes-223", "order": [0, 2, 1], "vars": [
        {"name": "a", "dom": ["0", "1"], "parents": [], "cpt": rows(1, 2, 2)},
        {"name": "b", "dom": ["yes", "no"], "parents": [0], "cpt": rows(2, 2, 4)},
        {"name": "c", "dom": ["low", "mid", "high"], "parents": [0, 1], "cpt": rows(4, 3, 1)}]})
    nets.append({"id": "fix-sizes-322", "order": [1, 2, 0], "vars": [
        {"name": "a", "dom": ["v1", "v2", "v3"], "parents": [], "cpt": rows(1, 3, 3)},
        {"name": "b", "dom": ["yes", "no"], "parents": [], "cpt": rows(1, 2, 5)},
        {"name": "c", "dom": ["0", "1"], "parents": [0, 1], "cpt": rows(6, 2, 6)}]})
    tw = rows(2, 2, 2)
    nets.append({"id": "fix-twins", "order": [5, 2, 0, 3, 1, 4], "vars": [
        {"name": "root", "dom": ["yes", "no"], "parents": [], "cpt": rows(1, 2, 1)},
        {"name": "mid", "dom": ["yes", "no"], "parents": [0], "cpt": rows(2, 2, 3)},
        {"name": "level", "dom": ["low", "mid", "high"], "parents": [1], "cpt": rows(2, 3, 2)},
        {"name": "sensorA", "dom": ["0", "1"], "parents": [0], "cpt": tw},
        {"name": "sensorB", "dom": ["0", "1"], "parents": [0], "cpt": [list(r) for r in tw]},
        {"name": "alarm", "dom": ["0", "1"], "parents": [2, 4], "cpt": rows(6, 2, 4)}]})
    nets.append({"id": "fix-twins2", "order": [0, 1, 2, 3, 4, 5], "vars": [
        {"name": "root", "dom": ["yes", "no"], "parents": [], "cpt": rows(1, 2, 2)},
        {"name": "sensorA", "dom": ["0", "1"], "parents": [0], "cpt": tw},
        {"name": "sensorB", "dom": ["0", "1"], "parents": [0], "cpt": [list(r) for r in tw]},
        {"name": "mid", "dom": ["yes", "no"], "parents": [0], "cpt": rows(2, 2, 5)},
        {"name": "level", "dom": ["low", "mid", "high"], "parents": [3], "cpt": rows(2, 3, 1)},
        {"name": "alarm", "dom": ["0", "1"], "parents": [1, 4], "cpt": rows(6, 2, 6)}]})
    return nets


def fl(x):
    return repr(float(x))


def render(net, rng, notation="mix", breakage=None):
    """BIF text and the block structure (in the file's declaration order) that the spec assembles"""
    vars_ = net["vars"]
    order = net["order"]
    pos = {v: i for i, v in enumerate(order)}      # spec index (0-based) of variable v
    lines = ["network unknown {", "}"]
    for v in order:
        V = vars_[v]
        lines += [f"variable {V['name']} {{", f"  type discrete [ {len(V['dom'])} ] {{ {', '.join(V['dom'])} }};", "}"]
    blocks = {}
    broken_var = rng.choice(order) if breakage else None
    for v in order:
        V = vars_[v]
        k = len(V["dom"])
        pdoms = [vars_[p]["dom"] for p in V["parents"]]
        combos = list(itertools.product(*[range(len(d)) for d in pdoms]))
        rows = {c: list(V["cpt"][i]) for i, c in enumerate(combos)}
        override = notation == "override"
        mode = notation if notation not in ("mix", "override") else rng.choice(["table", "entries", "default+entries", "table+entries"])
        if override:
            mode = rng.choice(["default+entries", "table+entries"])
        if not V["parents"]:
            mode = "table"
        blk = {"default": [], "table": [], "entries": []}
        header = f"probability ( {V['name']}" + (" | " + ", ".join(vars_[p]["name"] for p in V["parents"]) if V["parents"] else "") + " ) {"
        body = []
        if mode in ("table", "table+entries"):
            table = [rows[c][i] for i in range(k) for c in combos]
            blk["table"] = table
        if mode == "default+entries":
            blk["default"] = rows[combos[0]]
        if mode in ("entries", "default+entries", "table+entries"):
            for c in combos:
                if mode == "default+entries" and rows[c] == blk["default"] and rng.random() < 0.7:
                    continue
                if mode == "table+entries" and rng.random() < 0.6:
                    continue
                blk["entries"].append({"cond": list(c), "probs": rows[c]})
            if override and blk["entries"]:
                # the rows that have their own entry carry OTHER (valid) numbers in the table / default: entries win,
                # whatever the order of the lines in the block
                if mode == "table+entries":
                    for e in blk["entries"]:
                        ci = combos.index(tuple(e["cond"]))
                        alt = list(reversed(rows[tuple(e["cond"])]))
                        for i in range(k):
                            blk["table"][i * len(combos) + ci] = alt[i]
                elif all(rows[c] != blk["default"] or any(e["cond"] == list(c) for e in blk["entries"]) for c in combos):
                    blk["default"] = list(reversed(blk["default"]))
        # ---- breakage (applied to the blocks, so text and spec input stay the same thing)
        if breakage and v == broken_var:
            if breakage == "row_sum_high":
                tgt = blk["entries"][0]["probs"] if blk["entries"] else (blk["table"] if blk["table"] else blk["default"])
                tgt[0] = tgt[0] + F(1, 256)
            elif breakage == "row_sum_low":
                tgt = blk["entries"][0]["probs"] if blk["entries"] else (blk["table"] if blk["table"] else blk["default"])
                tgt[-1] = tgt[-1] - F(1, 256)
            elif breakage == "missing_row":
                if blk["entries"] and not blk["table"] and not blk["default"]:
                    blk["entries"].pop()
                else:
                    blk = {"default": [], "table": [], "entries": blk["entries"][:1]} if len(combos) > 1 else \
                          {"default": [], "table": [], "entries": []}
            elif breakage == "duplicate_entry":
                if blk["entries"]:
                    blk["entries"].append(dict(blk["entries"][0]))
                else:
                    blk["table"] = blk["table"] + [F(1, 2)]
            elif breakage == "short_table":
                if blk["table"]:
                    blk["table"] = blk["table"][:-1]
                else:
                    blk["default"] = (blk["default"] or rows[combos[0]])[:-1]
            elif breakage == "within_tolerance":
                tgt = blk["entries"][0]["probs"] if blk["entries"] else (blk["table"] if blk["table"] else blk["default"])
                tgt[0] = tgt[0] + F(1, 4096)      # 0.000244 < 0.001: still acceptable
        if blk["default"]:
            body.append("  default " + ", ".join(fl(x) for x in blk["default"]) + ";")
        if blk["table"]:
            body.append("  table " + ", ".join(fl(x) for x in blk["table"]) + ";")
        for e in blk["entries"]:
            cond = ", ".join(pdoms[j][e["cond"][j]] for j in range(len(e["cond"])))
            body.append(f"  ({cond}) " + ", ".join(fl(x) for x in e["probs"]) + ";")
        if override:
            rng.shuffle(body)
        lines += [header] + body + ["}"]
        blocks[v] = blk
    spec_vars = [{"dom": len(vars_[v]["dom"]), "parents": [pos[p] + 1 for p in vars_[v]["parents"]]} for v in order]
    spec_blocks = [blocks[v] for v in order]
    return "\n".join(lines) + "\n", spec_vars, spec_blocks


def q(x):
    x = F(x)
    return {"n": E.enc_z(x.numerator), "d": E.enc_z(x.denominator)}


def main(tier, seed):
    run = Run("C15", "model_checking", tier, seed)
    quick = run.tier == "quick"
    rng = random.Random(run.seed)
    nets = [gen_net(rng, i) for i in range(8 if quick else 60)] + fixed_nets()
    items = []
    for net in nets:
        variants = [("table", None), ("entries", None), ("mix", None), ("mix", None), ("override", None), ("override", None)]
        variants += [("mix", b) for b in ("row_sum_high", "row_sum_low", "missing_row", "duplicate_entry", "short_table",
                                          "within_tolerance")]
        for vi, (notation, breakage) in enumerate(variants):
            text, svars, sblocks = render(net, random.Random(rng.random()), notation, breakage)
            queries = []
            if breakage is None and vi == 0:
                order = net["order"]
                vs = net["vars"]
                for _ in range(3):
                    t = rng.choice(order)
                    evs = rng.sample([v for v in order if v != t], min(len(order) - 1, rng.choice([1, 1, 2])))
                    ev = [(v, rng.randrange(len(vs[v]["dom"]))) for v in evs]
                    k = rng.choice([1, 1, 2, 3])
                    queries.append({"kind": "inference", "t": t, "k": k, "ev": ev,
                                    "text": f"{vs[t]['name']}**{k} | " + ", ".join(f"{vs[v]['name']} = {vs[v]['dom'][x]}" for v, x in ev)})
                ev = [(v, rng.randrange(len(vs[v]["dom"]))) for v in rng.sample(order, min(2, len(order)))]
                queries.append({"kind": "sampling", "ev": ev, "t": 0, "k": 0,
                                "text": ", ".join(f"{vs[v]['name']} = {vs[v]['dom'][x]}" for v, x in ev)})
            items.append({"nid": f"{net['id']}-{vi}-{breakage or notation}", "net": net, "bif": text, "svars": svars,
                          "sblocks": sblocks, "breakage": breakage, "queries": queries})
    jobs = []
    for i in range(0, len(items), 6):
        jobs.append({"kind": "bayesnet", "id": f"bn{i}", "timeout": 1200,
                     "nets": [{"nid": it["nid"], "bif": it["bif"], "timeout": 150,
                               "queries": [{"kind": qy["kind"], "text": qy["text"]} for qy in it["queries"]]} for it in items[i:i + 6]]})
    res = pool.run_jobs(jobs, per_job_timeout=1200)
    obs = {}
    for r in res.values():
        for o in r.get("nets", []):
            obs[o["nid"]] = o
    # ---- stage 1: BayesNet.tla on every rendering
    traces = []
    for it in items:
        o = obs.get(it["nid"])
        if o is None or o.get("exc") == "timeout":
            run.error(f"{it['nid']}: no observation")
            continue
        net = it["net"]
        pos = {v: i for i, v in enumerate(net["order"])}
        ob = {"accepted": bool(o["accepted"]), "cpt": [], "queries": []}
        if o["accepted"]:
            for v in net["order"]:
                name = net["vars"][v]["name"]
                ob["cpt"].append([[q(x) for x in row] for row in o["cpts"][name]["rows"]])
            for qy, qo in zip(it["queries"], o.get("queries", [])):
                if "value" in qo and "q" in qo["value"]:
                    ob["queries"].append({"kind": qy["kind"], "t": pos[qy["t"]] + 1 if qy["kind"] == "inference" else 1, "k": qy["k"],
                                          "ev": [{"v": pos[v] + 1, "x": x} for v, x in qy["ev"]], "value": q(qo["value"]["q"])})
                else:
                    it.setdefault("query_problems", []).append({"query": qy["text"], "outcome": {k: qo.get(k) for k in ("exc", "printed", "value")}})
        traces.append({"id": it["nid"], "net": {"vars": it["svars"]}, "tol": q(F(1, 1000)),
                       "blocks": [{"default": [q(x) for x in b["default"]], "table": [q(x) for x in b["table"]],
                                   "entries": [{"cond": e["cond"], "probs": [q(x) for x in e["probs"]]} for e in b["entries"]]}
                                  for b in it["sblocks"]],
                       "obs": ob})
    verdicts = {}
    states = distinct = 0
    work = tempfile.mkdtemp(prefix="verif-bn-")
    try:
        batch = os.path.join(work, "batch.json")
        outdir = os.path.join(work, "out")
        os.mkdir(outdir)
        json.dump({"traces": traces}, open(batch, "w"))
        cfg = os.path.join(work, "b.cfg")
        open(cfg, "w").write("SPECIFICATION Spec\nINVARIANT TypeOK\nCHECK_DEADLOCK FALSE\n")
        cmd = ["java", "-XX:+UseParallelGC", "-Xmx6g", "-Xss64m", "-cp", tlc.TLC_CP, "tlc2.TLC", "-workers", "16", "-metadir",
               os.path.join(work, "meta"), "-noGenerateSpecTE", "-config", cfg, os.path.join(tlc.SPEC_DIR, "BayesNet.tla")]
        p = subprocess.run(cmd, cwd=tlc.SPEC_DIR, env=dict(os.environ, BATCH_FILE=batch, OUT_DIR=outdir), capture_output=True,
                           text=True, timeout=3000)
        m = tlc._STATS_RE.search(p.stdout)
        if p.returncode != 0 or not m:
            run.error("TLC BayesNet: " + p.stdout[-2500:])
        else:
            states, distinct = int(m.group(1)), int(m.group(2))
        for t in traces:
            vf = os.path.join(outdir, t["id"] + ".json")
            if os.path.exists(vf):
                verdicts[t["id"]] = json.load(open(vf))
    finally:
        shutil.rmtree(work, ignore_errors=True)
    byid = {it["nid"]: it for it in items}
    nfail = 0
    accepted = rejected = 0
    for nid, v in verdicts.items():
        it = byid[nid]
        if v["accepts"]:
            accepted += 1
        else:
            rejected += 1
        if v["fails"]:
            nfail += 1
            run.violation({nid, "bn:" + (it["breakage"] or "wellformed") + ":" + v["fails"][0]["clause"]},
                          {"bif": it["bif"], "breakage": it["breakage"], "failures": v["fails"][:4],
                           "polar": {k: obs[nid].get(k) for k in ("accepted", "exc", "msg")},
                           "queries": [(qy["text"], qo.get("printed")) for qy, qo in zip(it["queries"], obs[nid].get("queries", []))]})
        for pr in it.get("query_problems", []):
            run.violation({nid + ":query", "bn:query-no-number"}, {"bif": it["bif"], "clause": "query answer is not a number", **pr})
    # ---- stage 2: one iteration of the generated loop draws from the joint law
    ltraces = []
    lmeta = {}
    for it in items:
        o = obs.get(it["nid"], {})
        if it["breakage"] or not o.get("accepted") or "program" not in o:
            continue
        net = it["net"]
        P = absyn.prog(o["program"])
        names = o["names"]
        vs = net["vars"]
        claims = []
        doms = [range(len(vs[v]["dom"])) for v in net["order"]]
        for a in itertools.product(*doms):
            assign = dict(zip(net["order"], a))
            pr = F(1)
            for v in net["order"]:
                V = vs[v]
                row = 0
                for p in V["parents"]:
                    row = row * len(vs[p]["dom"]) + assign[p]
                pr *= V["cpt"][row][assign[v]]
            cond = ("true",)
            for v in net["order"]:
                atom = ("atom", [(F(1), ((names[vs[v]["name"]], 1),))], "==", [(F(assign[v]), ())] if assign[v] else [])
                cond = atom if cond == ("true",) else ("and", cond, atom)
            claims.append({"t": "prob", "pi": 1, "cond": cond, "val": pr, "tag": str(a)})
        ltraces.append({"id": it["nid"], "vars": P["vars"], "progs": [P], "N": 2, "steps": [[], claims, claims]})
        lmeta[it["nid"]] = it
    lv, lstats, lerr = C.run_tlc(ltraces)
    for tid, e in lerr.items():
        if not e.startswith("tlc timeout"):
            run.error(f"{tid}: {e}")
    loop_fail = 0
    for tid, v in lv.items():
        if v["fails"]:
            loop_fail += 1
            it = lmeta[tid]
            run.violation({tid, "bn:generated-loop"}, {"bif": it["bif"], "clause": "generated loop does not draw from the joint law",
                                                       "code": obs[tid].get("code"), "failures": [(f["n"], f["t"]) for f in v["fails"][:5]]})
    coverage = {"states": distinct + lstats["distinct"], "transitions": states + lstats["states"],
                "traces_validated_against_impl": len(verdicts) + len(lv),
                "samples": [{"bif": byid[n]["bif"], "spec_accepts": v["accepts"], "polar_accepted": obs[n].get("accepted")}
                            for n, v in list(verdicts.items())[:2]],
                "networks": len(nets), "renderings": len(items), "renderings_spec_accepts": accepted,
                "renderings_spec_rejects": rejected, "renderings_with_failures": nfail,
                "generated_loops_checked": len(lv), "generated_loops_with_failures": loop_fail,
                "queries_checked": sum(len(t["obs"]["queries"]) for t in traces), "exhaustive": False}
    return run.finish(coverage, ["CPT entries are dyadic so that BIF decimals and floats are exact; tolerance 0.001 as in BifParser",
                                 "networks have 2-4 variables with domains of 2-3 values (joint law enumerated completely)",
                                 "the joint probabilities used as claims for the generated loop are computed by the harness from the abstract network (BayesNet.tla computes the same law for the query clauses)"])
