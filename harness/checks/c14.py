"""C14: synthesized invariants and solvable loops agree with the unsolvable loop.

For every pair (Q, f) that UnsolvInvSynthesizer.synth_inv returns (special case k = 1 and the general case),
clause `mom' of spec/LoopTrace.tla binds f(n) to E[Q(state after n iterations)] computed by the semantics on the
SOURCE loop, for n = 0..N, two instantiations of the symbolic initial values and of the free template
coefficients.  For every synthesized solvable loop, clause `momeq' steps the original and the synthesized loop
side by side and requires the same first moments for every retained variable and E[Q] = E[s] for the fresh
variable s that stands for Q (the synthesized loops track expectations, so first moments are what they claim)."""
import glob
import os
from fractions import Fraction as F

from .. import absyn, campaign as C, pool
from ..report import Run

EXTRA = [
    ("choice_squares", "x = 1\ny = 2\nwhile true:\n    x, y = x*y {1/2} x, y + 1 {1/2} y*x\nend\n"),
    ("markov_like", "x, y = 1, 2\nwhile true:\n    s = Bernoulli(1/2)\n    if s == 0:\n        x, y = x + x*y, (1/3)*x + (2/3)*y + (x*y)\n    else:\n        x, y = x + y + (2/3)*x*y, 2*y + (2/3)*(x*y)\n    end\nend\n"),
    ("squares_toggle", "x, y, z = 1, 1, 0\nwhile true:\n    z = 1 - z\n    x, y = x + z*x**2 - y**2, y + z*x**2 - y**2\nend\n"),
    ("squares_toggle_z", "z = 0\nwhile true:\n    z = 1 - z\n    x = 2*x + y**2 + z\n    y = 2*y - y**2 + 2*z\nend\n"),
    ("squares_lazy_z", "z = 0\nwhile true:\n    z = z + 1 {1/2} z\n    x = 2*x + y**2 + z\n    y = 2*y - y**2 + 2*z\nend\n"),
    # two independent unsolvable blocks: several solutions whose effective parts use different effective monomials
    ("two_blocks", "z = 0\nw = 0\nwhile true:\n    z = 1 - z\n    w = w + 1 {1/2} w + 2\n    x = 2*x + y**2 + z\n    y = 2*y - y**2 + 2*z\n    u = 3*u + v**2 + w\n    v = 3*v - v**2\nend\n"),
    # effective variables assigned AFTER the defective ones, the later one reading the earlier one
    ("effective_after", "z = 0\nw = 0\nwhile true:\n    x = 2*x + y**2 + w\n    y = 2*y - y**2 + z\n    z = z + 1 {1/2} z + 2\n    w = w + z\nend\n"),
    ("effective_after_three", "a = 1\nz = 0\nw = 0\nwhile true:\n    x = x + y**2 + w\n    y = 3*y - y**2 + a\n    a = 2 - a\n    z = z + a {1/3} z\n    w = w + 2*z\nend\n"),
    # k = 1 with an effective part that is a non-constant polynomial in n (counter / drift)
    ("k1_polynomial_effective_part", "z = 0\nwhile true:\n    x, y = x + x*y + z, y - x*y\n    z = z + 1 {1/2} z + 2\nend\n"),
    # a k = 0 solution with an n-dependent effective part followed by another group
    ("k0_then_k2", "z = 0\nwhile true:\n    x, y = z + x*y, -x*y\n    u, v = 2*u + v**2, 2*v - v**2\n    z = z + 1\nend\n"),
    ("dependent_init", "x = Bernoulli(1/2)\ny = 2*x\nwhile true:\n    s = Bernoulli(1/2)\n    if s == 0:\n        x, y = x + x*y, (1/3)*x + (2/3)*y + (x*y)\n    else:\n        x, y = x + y + (2/3)*x*y, 2*y + (2/3)*(x*y)\n    end\nend\n"),
]


def main(tier, seed):
    run = Run("C14", "model_checking", tier, seed)
    quick = run.tier == "quick"
    N = 4
    subjects = []
    for path in sorted(glob.glob(os.path.join(C.REPO, "benchmarks", "defective", "*.prob"))):
        name = os.path.splitext(os.path.basename(path))[0]
        if name.startswith("deg-") and name not in ("deg-5",):
            continue
        subjects.append((name, open(path).read()))
    subjects += EXTRA
    if quick:
        subjects = subjects[:14] + EXTRA
    jobs = []
    for name, text in subjects:
        for deg in ((1, 2) if quick else (1, 2, 3)):
            jobs.append({"kind": "synth", "id": f"{name}-d{deg}", "text": text, "deg": deg, "N": N, "points": [{}, {}],
                         "timeout": 150 if quick else 400})
    # the same analyses after another loop with equally named variables was analysed in the same process
    SQ_A = "z = 0\nwhile true:\n    z = 1 - z\n    x = 2*x + y**2 + z\n    y = 2*y - y**2 + 2*z\nend\n"
    SQ_B = "z = 0\nwhile true:\n    z = z + 1 {1/2} z\n    x = 2*x + y**2 + z\n    y = 2*y - y**2 + 2*z\nend\n"
    for name, text, pre in (("hist-B-after-A", SQ_B, SQ_A), ("hist-A-after-B", SQ_A, SQ_B),
                            ("hist-markov-after-A", EXTRA[1][1], SQ_A)):
        jobs.append({"kind": "synth", "id": f"{name}-d2", "text": text, "deg": 2, "N": N, "points": [{}, {}], "timeout": 200,
                     "pre": [{"text": pre, "deg": 2}]})
    res = pool.run_jobs(jobs, per_job_timeout=150 if quick else 400)
    traces, meta = [], {}
    notes = {"refused": 0, "no_solution": 0, "solutions": 0, "loops": 0, "unsupported": 0, "timeouts": 0}
    for j in jobs:
        r = res.get(j["id"], {})
        if r.get("stage") in ("timeout", "crash"):
            notes["timeouts"] += 1
            continue
        if r.get("stage") or "parsed" not in r:
            notes["refused"] += 1
            continue
        sols = [s for s in r.get("solutions", []) if "per_point" in s]
        if not sols:
            notes["no_solution"] += 1
        for pi, pt in enumerate(r["points_used"]):
            try:
                A = absyn.prog(r["parsed"][pi])
            except Exception:
                notes["unsupported"] += 1
                continue
            steps = [[] for _ in range(N + 1)]
            progs = [A]
            for si, s in enumerate(sols):
                pp = s["per_point"][pi]
                if "poly" not in pp:
                    notes["unsupported"] += 1
                    continue
                if pi == 0:
                    notes["solutions"] += 1
                Q = absyn.poly(pp["poly"])
                for n, val in enumerate(pp["values"]):
                    if "q" in val:
                        steps[n].append({"t": "mom", "pi": 1, "poly": Q, "val": F(val["q"]), "tag": f"{s['tag']}:{s['invariant'][:60]}"})
            for li, lp in enumerate(r.get("loops", [])):
                if "per_point" not in lp:
                    continue
                ex = lp["per_point"][pi]
                try:
                    B = absyn.prog(ex["prog"])
                except Exception:
                    notes["unsupported"] += 1
                    continue
                if pi == 0:
                    notes["loops"] += 1
                progs.append(B)
                bi = len(progs)
                Q = absyn.poly(ex["inv_poly"])
                fresh = [v for v in B["vars"] if v.startswith("_s")]
                retained = [v for v in B["vars"] if not v.startswith("_") and v in A["vars"]]
                for n in range(N + 1):
                    for v in retained:
                        steps[n].append({"t": "momeq", "a": 1, "pa": [(F(1), ((v, 1),))], "b": bi, "pb": [(F(1), ((v, 1),))],
                                         "tag": f"loop{li}:{v}"})
                    for v in fresh[:1]:
                        steps[n].append({"t": "momeq", "a": 1, "pa": Q, "b": bi, "pb": [(F(1), ((v, 1),))], "tag": f"loop{li}:Q"})
            if not any(steps):
                continue
            allvars = []
            for P in progs:
                for v in P["vars"]:
                    if v not in allvars:
                        allvars.append(v)
            tid = f"{j['id']}-p{pi}"
            traces.append({"id": tid, "vars": allvars, "progs": progs, "N": N, "steps": steps})
            meta[tid] = (j, r, pi)
    verdicts, stats, errors = C.run_tlc(traces)
    for tid, e in errors.items():
        if "not encodable" in e:
            notes["unsupported"] += 1
        else:
            (None if e.startswith("tlc timeout") else run.error(f"{tid}: {e}"))
    by_id = {t["id"]: t for t in traces}
    nfail = 0
    from ..driver import fail_summary
    for tid, v in verdicts.items():
        if not v["fails"]:
            continue
        nfail += 1
        j, r, pi = meta[tid]
        fs = fail_summary(by_id[tid], v, 10)
        run.violation({j["id"]} | {f"{j['id']}:{f['tag']}" for f in fs if f.get("tag")},
                      {"program": j["text"], "degree": j["deg"], "point": r["points_used"][pi], "failures": fs,
                       "solutions": [(s.get("tag"), s.get("invariant"), s.get("closed_form")) for s in r.get("solutions", [])][:6],
                       "loops": [lp.get("text") for lp in r.get("loops", [])][:2]})
    coverage = {"states": stats["distinct"], "transitions": stats["states"], "traces_validated_against_impl": len(verdicts),
                "samples": [{"program": meta[t][0]["text"], "solutions": [(s.get("invariant"), s.get("closed_form"))
                                                                          for s in meta[t][1].get("solutions", [])][:3]}
                            for t in list(verdicts)[:3]],
                "subjects": len(subjects), "synthesis_runs": len(jobs), "N": N, **notes,
                "claims_checked": sum(len(s) for t in traces for s in t["steps"]),
                "traces_cut_by_support_cap": sum(1 for tid, v in verdicts.items() if v["steps"] < by_id[tid]["N"]),
                "traces_with_failures": nfail, "exhaustive": False}
    return run.finish(coverage, ["N = 3 iterations (values of unsolvable loops grow doubly exponentially); bounded only",
                                 "synthesized loops are compared on first moments of retained variables and of the fresh variable standing for Q",
                                 "free template coefficients and symbolic initial values are instantiated at two points"])
