"""C19: texts that denote the same loop yield the same analysis; ill-formed text and invalid probability
vectors are rejected.

Equivalence part: one abstract program (the generator's, ground truth) is rendered in several spellings
(whitespace/comments/blank lines, redundant parentheses with Python precedence made explicit, decimal vs
fraction notation, omitted vs explicit last probability, simultaneous assignment vs explicit temporaries,
elif chain vs nested else-if).  For EVERY spelling, (a) Polar's parse, exported statement by statement, must
have the same law on the source variables as the abstract program at every iteration (clause equiv of
spec/LoopTrace.tla) and (b) Polar's closed forms must equal the abstract program's moments (clause mom) --
hence all spellings agree with each other and with the intended meaning.
Rejection part: texts outside the grammar by construction, and choices whose constant probabilities are
negative or sum to more than 1 (for which Mass = 1 and positive weights of spec/LoopDist cannot hold), must end in an
error, never in a result."""
import random

from .. import campaign as C, gen, pool
from ..driver import analysis_check


def bad_texts(rng):
    base = "x = 0\nf = 0\nwhile true:\n    f = Bernoulli(1/2)\n    if f == 1:\n        x = x + 1 {1/2} x - 1\n    else:\n        x = 2*x\n    end\nend\n"
    muts = {
        "missing_final_end": base.rsplit("end\n", 1)[0],
        "missing_if_end": base.replace("    end\nend", "end"),
        "missing_colon_while": base.replace("while true:", "while true"),
        "missing_colon_if": base.replace("if f == 1:", "if f == 1"),
        "unbalanced_paren": base.replace("x = 2*x", "x = 2*x)"),
        "unbalanced_paren2": base.replace("x = 2*x", "x = (2*x"),
        "walrus": base.replace("x = 2*x", "x := 2*x"),
        "empty_probability": base.replace("{1/2}", "{}"),
        "stray_at": base.replace("x = 2*x", "x = 2*x @"),
        "double_assign_op": base.replace("x = 2*x", "x = = 2*x"),
        "two_statements_one_line": base.replace("x = 2*x", "x = 2*x f = 1"),
        "if_without_condition": base.replace("if f == 1:", "if :"),
        "elif_without_if": base.replace("if f == 1:", "elif f == 1:"),
        "while_misspelled": base.replace("while true:", "whle true:"),
        "unknown_operator": base.replace("x = 2*x", "x = 2 % x"),
        "unknown_comparison": base.replace("f == 1", "f === 1"),
        "missing_rhs": base.replace("x = 2*x", "x ="),
        "probability_without_alternative": base.replace("x = x + 1 {1/2} x - 1", "x = {1/2} x - 1"),
        "double_while": base.replace("while true:", "while while true:"),
        "else_twice": base.replace("    end\nend", "    else:\n        x = 1\n    end\nend"),
        "no_loop": "x = 0\n",
        "empty": "",
        "guard_missing": base.replace("while true:", "while :"),
        "dist_unclosed": base.replace("Bernoulli(1/2)", "Bernoulli(1/2"),
        "and_single": base.replace("f == 1", "f == 1 & f == 0"),
    }
    return [{"tid": "bad-" + k, "text": v, "goal": None, "expect": "reject"} for k, v in muts.items()]


def bad_probabilities():
    out = []
    tmpl = "x = 0\nwhile true:\n    x = %s\nend\n"
    cases = {
        "sum_gt_1": "x + 1 {3/4} x + 2 {3/4} x + 3",
        "sum_gt_1_explicit": "x + 1 {3/4} x + 2 {3/4}",
        "negative": "x + 1 {-1/4} x + 2",
        "gt_1_single": "x + 1 {5/4} x + 2",
        "explicit_sum_lt_1": "x + 1 {1/4} x + 2 {1/4}",
        "negative_decimal": "x + 1 {-0.5} x",
        "three_way_sum_gt_1": "1 {1/2} 2 {1/3} 3 {1/3} 4",
    }
    for k, rhs in cases.items():
        out.append({"tid": "prob-" + k, "text": tmpl % rhs, "goal": "x", "expect": "reject"})
    out.append({"tid": "prob-init-sum_gt_1", "text": "x = 0 {3/4} 1 {3/4} 2\nwhile true:\n    x = x\nend\n", "goal": "x",
                "expect": "reject"})
    # controls that must be accepted
    out.append({"tid": "ok-sum_eq_1", "text": tmpl % "x + 1 {1/4} x + 2 {3/4}", "goal": "x", "expect": "accept"})
    out.append({"tid": "ok-implicit", "text": tmpl % "x + 1 {1/4} x + 2 {1/4} x", "goal": "x", "expect": "accept"})
    # decimal probabilities that sum to 1 exactly, although their binary floating point sum does not
    for k, rhs in {"decimal_721": "x + 1 {0.7} x + 2 {0.2} x - 3 {0.1}", "decimal_811": "x + 1 {0.8} x + 2 {0.1} x - 3 {0.1}",
                   "decimal_127": "x + 1 {0.1} x + 2 {0.2} x - 3 {0.7}", "decimal_six": "1 {0.1} 2 {0.2} 3 {0.3} 4 {0.15} 5 {0.15} 6 {0.1}",
                   "decimal_implicit": "x + 1 {0.7} x + 2 {0.2} x - 3", "decimal_thirds": "x + 1 {0.3} x + 2 {0.3} x + 3 {0.3} x + 4 {0.1}"}.items():
        out.append({"tid": "ok-" + k, "text": tmpl % rhs, "goal": "x", "expect": "accept"})
    out.append({"tid": "prob-decimal_sum_gt_1", "text": tmpl % "x + 1 {0.7} x + 2 {0.2} x - 3 {0.11}", "goal": "x", "expect": "reject"})
    out.append({"tid": "prob-decimal_sum_lt_1", "text": tmpl % "x + 1 {0.7} x + 2 {0.2} x - 3 {0.09}", "goal": "x", "expect": "reject"})
    out.append({"tid": "ok-zero", "text": tmpl % "x + 1 {0} x + 2", "goal": "x", "expect": "accept"})
    return out


def post(ctx):
    run = ctx["run"]
    rng = random.Random(run.seed)
    texts = bad_texts(rng) + bad_probabilities()
    res = pool.run_jobs([{"kind": "accepts", "id": "acc", "texts": texts, "timeout": 900}], per_job_timeout=900)["acc"]
    if "texts" not in res:
        run.error(f"accepts job failed: {res}")
        return {}
    by = {t["tid"]: t for t in texts}
    rejected = accepted = 0
    for o in res["texts"]:
        t = by[o["tid"]]
        is_rejected = "exc" in o and o["exc"] != "timeout"
        if t["expect"] == "reject":
            if is_rejected:
                rejected += 1
            else:
                run.violation({o["tid"]}, {"text": t["text"], "clause": "ill-formed input accepted",
                                           "outcome": o})
        else:
            if is_rejected:
                run.violation({o["tid"]}, {"text": t["text"], "clause": "well-formed control rejected", "outcome": o})
            else:
                accepted += 1
    cov = {"ill_formed_texts": sum(1 for t in texts if t["expect"] == "reject"), "ill_formed_rejected": rejected,
           "well_formed_controls_accepted": accepted}
    cov.update(lines_part(run))
    return cov


LINE_REP = {"A": "x = x + 1", "I": "if x == 0:", "F": "elif x == 1:", "L": "else:", "E": "end", "W": "while true:", "T": "types",
            "B": "", "C": "# note"}


def lines_text(seq):
    out, k = [], 0
    for c in seq:
        if c == "D":
            k += 1
            out.append(f"v{k} : Finite(0, 1)")
        else:
            out.append(LINE_REP[c])
    return "\n".join(out) + "\n"


def lines_part(run):
    """spec -> code: spec/LineGrammar.tla enumerates every sequence of line categories up to a length (rejected prefixes
    are not extended) with the verdict `well formed'; Polar's parser must accept exactly the well-formed texts"""
    import json
    import os
    import shutil
    import subprocess
    import tempfile
    from .. import tlc
    quick = run.tier == "quick"
    rng = random.Random(run.seed + 3)

    def enumerate_(maxlen):
        work = tempfile.mkdtemp(prefix="verif-lg-")
        try:
            cfg = os.path.join(work, "lg.cfg")
            open(cfg, "w").write(f"CONSTANT MaxLen = {maxlen}\nSPECIFICATION Spec\nINVARIANT StackOnlyInBodies\nINVARIANT DoneHasNoOpenBlock\n"
                                 "PROPERTY DeadIsFinal\nCONSTRAINT Emit\nCHECK_DEADLOCK FALSE\n")
            cmd = ["java", "-XX:+UseParallelGC", "-Xmx6g", "-cp", tlc.TLC_CP, "tlc2.TLC", "-workers", "1", "-metadir",
                   os.path.join(work, "meta"), "-noGenerateSpecTE", "-config", cfg, os.path.join(tlc.SPEC_DIR, "LineGrammar.tla")]
            p = subprocess.run(cmd, cwd=tlc.SPEC_DIR, capture_output=True, text=True, timeout=3000)
            m = tlc._STATS_RE.search(p.stdout)
            if p.returncode != 0 or not m:
                run.error("TLC LineGrammar: " + p.stdout[-1500:])
                return [], 0
            out = []
            for line in p.stdout.splitlines():
                if line.startswith('"@@LINES '):
                    out.append(json.loads(json.loads(line)[len("@@LINES "):]))
            return out, int(m.group(2))
        finally:
            shutil.rmtree(work, ignore_errors=True)
    full, states = enumerate_(5 if quick else 6)
    longer, states2 = enumerate_(8)
    extra = [d for d in longer if len(d["s"]) > (5 if quick else 6)]
    rng.shuffle(extra)
    always = {"TDCDEWAE", "TDBDEWAE", "TDDEWAE", "WIAFALAEE", "WIAEIAEE", "AIALAEWAE", "TDEAWAEB", "WIIAEEE", "WIALAFAEE"}
    extra.sort(key=lambda d: "".join(d["s"]) not in always)
    # all well-formed longer texts first (they are rare), then a seeded sample of the others
    extra = [d for d in extra if d["ok"]][: (1500 if quick else 6000)] + [d for d in extra if not d["ok"]][: (2500 if quick else 14000)]
    extra += [d for d in longer if "".join(d["s"]) in always and d not in extra]
    # a rejected prefix stays rejected whatever follows (DeadIsFinal): completions that would make the text well formed
    # if the offending line were legal
    suffixes = [["E", "W", "A", "E"], ["W", "A", "E"], ["A", "E"], ["E"], ["E", "E", "W", "A", "E"], ["A", "E", "W", "A", "E"]]
    dead = [d for d in full + extra if d.get("dead")]
    rng.shuffle(dead)
    completed = [{"s": d["s"] + sf, "ok": False, "dead": True} for d in dead[: (1500 if quick else 8000)] for sf in suffixes]
    items = full + extra + completed
    jobs = [{"kind": "parse_many", "id": f"lg{i}", "texts": [lines_text(d["s"]) for d in items[i:i + 400]], "timeout": 600}
            for i in range(0, len(items), 400)]
    res = pool.run_jobs(jobs, per_job_timeout=600)
    compared = bad = wf = 0
    for i in range(0, len(items), 400):
        r = res.get(f"lg{i}", {})
        if "results" not in r:
            run.error(f"parse_many job lg{i} failed: {r.get('stage')}")
            continue
        for d, (acc, exc) in zip(items[i:i + 400], r["results"]):
            compared += 1
            wf += 1 if d["ok"] else 0
            if acc != d["ok"]:
                bad += 1
                if bad <= 25:
                    run.violation({"lines:" + "".join(d["s"])},
                                  {"clause": "well-formed text rejected" if d["ok"] else "ill-formed text accepted",
                                   "line_categories": d["s"], "text": lines_text(d["s"]), "parser_exception": exc})
    return {"line_grammar_states": states + states2, "line_texts_compared": compared, "line_texts_well_formed": wf,
            "line_texts_disagreeing": bad, "line_grammar_exhaustive_up_to": 5 if quick else 6}


def handwritten():
    """spellings the renderer does not produce, each with its hand-written abstract program as ground truth: decimals
    as divisors and as bases of powers, elif chains over comparisons with variables, equal-valued named constants and
    two notations of one number (an elif chain is NOT a switch: a later branch runs only if every earlier condition
    failed, whatever the conditions look like)"""
    from fractions import Fraction as F
    ONE = ()

    def V(v, e=1):
        return ((v, e),)

    def asg(v, poly):
        return ("assign", v, [(F(1), poly)], ("true",), v)

    def inc(v, k):
        return asg(v, [(F(1), V(v)), (F(k), ONE)])

    def choice(v, *alts):
        return ("assign", v, [(F(p), ([(F(c), ONE)] if c else [])) for p, c in alts], ("true",), v)

    def eq(v, rhs):
        return ("atom", [(F(1), V(v))], "==", rhs)
    TA = {"vars": ["x", "y", "z"], "s0": {}, "guard": ("true",),
          "init": [asg("x", [(F(1), ONE)]), asg("y", [(F(1), ONE)]), asg("z", [])],
          "body": [("assign", "x", [(F(1, 2), [(F(4), V("x"))]), (F(1, 2), [(F(1, 4), V("x"))])], ("true",), "x"),
                   asg("y", [(F(9, 4), V("y")), (F(-2), V("x")), (F(1, 4), ONE)]),
                   asg("z", [(F(1), V("z")), (F(2, 5), (("x", 1), ("y", 1))), (F(2), ONE)])]}
    A = {"decimal_divisors_and_bases": "x = 1\ny = 1\nz = 0\nwhile true:\n    x = x/0.25 {1/2} x/4\n    y = 1.5**2*y - x/0.5 + 0.5**2\n    z = z + x*y/2.5 + 2**2*0.5\nend\n",
         "fractions": "x = 1\ny = 1\nz = 0\nwhile true:\n    x = x/(1/4) {1/2} x/4\n    y = (3/2)**2*y - x/(1/2) + (1/2)**2\n    z = z + x*y/(5/2) + 2**2*(1/2)\nend\n",
         "plain": "x = 1\ny = 1\nz = 0\nwhile true:\n    x = 4*x {1/2} x/4\n    y = 9/4*y - 2*x + 1/4\n    z = z + 2/5*x*y + 2\nend\n"}
    half = [(F(1, 2), ONE)]
    TB = {"vars": ["c", "d", "h", "lo", "mid", "w", "x", "y", "z"], "s0": {}, "guard": ("true",),
          "init": [asg("x", [(F(1), ONE)]), asg("y", [(F(1), ONE)]), asg("z", [(F(2), ONE)]), asg("h", []), asg("lo", [(F(1), ONE)]),
                   asg("mid", [(F(1), ONE)]), asg("c", []), asg("d", []), asg("w", [])],
          "body": [choice("x", (F(1, 2), 1), (F(1, 2), 2)), choice("y", (F(1, 3), 1), (F(2, 3), 2)),
                   choice("h", (F(1, 4), 0), (F(3, 4), F(1, 2))),
                   ("if", [eq("x", [(F(1), V("y"))]), eq("x", [(F(1), V("z"))])], [[inc("c", 1)], [inc("c", 2)]], [inc("c", 4)]),
                   ("if", [eq("x", [(F(1), V("lo"))]), eq("x", [(F(1), V("mid"))])], [[inc("d", 1)], [inc("d", 2)]], [inc("d", 4)]),
                   ("if", [eq("h", half), eq("h", half)], [[inc("w", 1)], [inc("w", 2)]], [inc("w", 4)])]}
    head = "x = 1\ny = 1\nz = 2\nh = 0\nlo = 1\nmid = 1\nc = 0\nd = 0\nw = 0\nwhile true:\n    x = 1 {1/2} 2\n    y = 1 {1/3} 2\n    h = 0 {1/4} 1/2\n"
    B = {"elif": head + "    if x == y:\n        c = c + 1\n    elif x == z:\n        c = c + 2\n    else:\n        c = c + 4\n    end\n"
                        "    if x == lo:\n        d = d + 1\n    elif x == mid:\n        d = d + 2\n    else:\n        d = d + 4\n    end\n"
                        "    if h == 0.5:\n        w = w + 1\n    elif h == 1/2:\n        w = w + 2\n    else:\n        w = w + 4\n    end\nend\n",
         "nested": head + "    if x == y:\n        c = c + 1\n    else:\n        if x == z:\n            c = c + 2\n        else:\n            c = c + 4\n        end\n    end\n"
                          "    if x == lo:\n        d = d + 1\n    else:\n        if x == mid:\n            d = d + 2\n        else:\n            d = d + 4\n        end\n    end\n"
                          "    if h == 0.5:\n        w = w + 1\n    else:\n        if h == 1/2:\n            w = w + 2\n        else:\n            w = w + 4\n        end\n    end\nend\n"}
    # a signed atom in redundant parentheses as the base of a power, as a factor and as a subtrahend
    TC = {"vars": ["u", "w", "x", "y"], "s0": {}, "guard": ("true",),
          "init": [asg("x", [(F(1), ONE)]), asg("y", []), asg("u", []), asg("w", [(F(1), ONE)])],
          "body": [choice("x", (F(1, 2), 1), (F(1, 2), 2)),
                   asg("y", [(F(1), V("y")), (F(1), V("x", 2))]),                         # y + (-x)**2
                   asg("u", [(F(1), V("u")), (F(-1), V("x", 3)), (F(2), V("x"))]),        # u + (-x)**3 - 2*(-x)
                   asg("w", [(F(9), V("w")), (F(-16), ONE), (F(1), V("x"))])]}            # w*(-3)**2 - (-2)**4 - (-x)
    head_c = "x = 1\ny = 0\nu = 0\nw = 1\nwhile true:\n    x = 1 {1/2} 2\n"
    Cc = {"signed_parens": head_c + "    y = y + (-x)**2\n    u = u + (-x)**3 - 2*(-x)\n    w = w*(-3)**2 - (-2)**4 - (-x)\nend\n",
          "double_parens": head_c + "    y = y + ((-x))**2\n    u = u + ((-x))**3 - 2*((-x))\n    w = w*((-3))**2 - ((-2))**4 - ((-x))\nend\n",
          "plain": head_c + "    y = y + x**2\n    u = u - x**3 + 2*x\n    w = 9*w - 16 + x\nend\n"}
    items = []
    for name, T, texts, goals in (("decimal_div_pow", TA, A, ["x", "y", "z", "x*y"]), ("elif_not_a_switch", TB, B, ["c", "d", "w", "c*d", "c**2"]),
                                  ("signed_atoms", TC, Cc, ["y", "u", "w", "x*y"])):
        for sp, text in texts.items():
            items.append({"id": f"hand-{name}-{sp}", "text": text, "T": T, "params": [], "types": None, "points": [{}], "goals": goals,
                          "origin": f"hand-written spelling {name}/{sp}"})
    return items


def main(tier, seed):
    quick = tier == "quick"
    rng = random.Random(seed)
    base = []
    i = -1
    n_templates = 5 if quick else 24
    while len(base) < n_templates:
        i += 1
        s = seed * 7927 + i
        prof = {"linear_only": (i % 2 == 0), "params": (i % 5 == 4)}
        g = gen.Gen(s, prof)
        T, params = g.gen()
        if gen.paths(T["body"]) ** 3 > 4000:
            continue
        r2 = random.Random(s + 1)
        base.append((s, g, T, params, gen.choose_points(params, r2, k=1), gen.default_goals(T, r2, 2, 4)))
    items = []
    for ft in C.fixed_templates():
        if ft.get("fixed_text"):
            continue
        for kind in ["plain", "noisy", "temporaries", "parens", "decimal"]:
            text = gen.render_variant(ft["T"], kind, random.Random(7), None)
            items.append(dict(ft, id=f"{ft['id']}-{kind}", text=text, origin=ft["origin"] + f" spelling={kind}"))
    for s, g, T, params, points, goals in base:
        kinds = gen.VARIANT_KINDS
        for kind in kinds:
            text = gen.render_variant(T, kind, random.Random(s), g.types)
            items.append({"id": f"v{s}-{kind}", "text": text, "T": T, "params": params, "types": g.types,
                          "points": points, "goals": goals, "origin": f"generator seed={s} spelling={kind}"})
    items += handwritten()
    return analysis_check("C19", tier, seed, items=items, want=["parsed", "moments"],
                          builders=[C.b_source, C.b_parse_equiv, C.b_moments], N=4 if quick else 6, post=post,
                          timeout=100,
                          assumptions=["the ill-formed part covers the listed mutation classes only (no grammar model: membership of arbitrary texts is not decided)",
                                       "the renderer is part of the trusted base; it is cross-checked against Polar's parser by the equiv clause"])


def replay(path):
    from ..driver import replay_analysis
    return replay_analysis("C19", path, want=["parsed", "moments"], builders=[C.b_source, C.b_moments], N=4)
