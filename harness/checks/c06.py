"""C06 (soundness) and the shared machinery of C07 (bounded completeness) for invariant ideals.

Goal sequences come from the semantics, not from Polar's closed forms: for loop programs the goal quantities
(moments, central moments, cumulants, or variable values of deterministic loops) are computed by spec/LoopDist
on the source program; tuples of exponential polynomials handed directly to InvariantIdeal are realised as a
deterministic companion loop (n = n + 1, e_b = b * e_b) whose goal polynomials are evaluated by the same spec.
C06: every basis polynomial Polar prints must evaluate to 0 on the goal quantities at every n beyond the
special cases Polar lists (clause inv of spec/LoopTrace.tla)."""
import itertools
import math
import random
from fractions import Fraction as F

from .. import absyn, campaign as C, gen, pool
from ..report import Run

ONE = ()


def V(v, e=1):
    return ((v, e),)


# ---- tuples of exponential polynomials: goal = list of (coef, n-power, base)

def tuple_family(rng, quick):
    fams = [
        {"a": [(1, 0, 2)], "b": [(1, 0, 4), (1, 1, 1)], "c": [(1, 1, 1)]},
        {"a": [(1, 0, 4)], "b": [(1, 0, 8)]},
        {"a": [(1, 0, 4)], "b": [(1, 0, F(1, 2))]},
        {"a": [(1, 0, 2)], "b": [(1, 0, 3)], "c": [(1, 0, 6)]},
        {"a": [(1, 0, -2)], "b": [(1, 0, 4)]},
        {"a": [(1, 0, -1)], "b": [(1, 1, 1)]},
        {"a": [(1, 0, 2), (1, 0, 1)], "b": [(1, 0, 4), (2, 0, 2)]},
        {"a": [(1, 0, F(1, 2))], "b": [(1, 0, F(1, 4)), (3, 0, 1)]},
        {"a": [(1, 0, 9)], "b": [(1, 0, 27)], "c": [(1, 0, 3)]},
        {"a": [(1, 1, 2)], "b": [(1, 0, 2)], "c": [(1, 1, 1)]},
        {"a": [(1, 0, 2)], "b": [(1, 0, -2)], "c": [(1, 0, -1)]},
        {"a": [(1, 2, 1)], "b": [(1, 1, 1)]},
        {"a": [(1, 0, 2)], "b": [(1, 0, 6)], "c": [(1, 0, 9)], "d": [(1, 0, 18)]},
        {"a": [(1, 0, 3)], "b": [(1, 0, 5)]},
        {"a": [(5, 0, F(1, 2))], "b": [(1, 0, 2)], "c": [(1, 0, 3)]},
        {"a": [(1, 0, F(2, 3))], "b": [(1, 0, F(3, 2))]},
        {"a": [(1, 0, 1)], "b": [(1, 0, 2)]},
        {"a": [(1, 0, 12)], "b": [(1, 0, 18)], "c": [(1, 0, F(2, 3))]},
        {"a": [(1, 0, -1)], "b": [(1, 0, 2)]},
        {"a": [(1, 0, F(-1, 2))], "b": [(1, 0, 2)]},
        {"a": [(1, 0, -2)], "b": [(1, 0, -3)], "c": [(1, 0, 6)]},
        {"a": [(1, 0, F(-3, 4))], "b": [(1, 0, 2)], "c": [(1, 0, -3)]},
        {"a": [(1, 0, -4)], "b": [(1, 0, 2)], "c": [(1, 0, -8)]},
        {"a": [(1, 0, 3)], "b": [(1, 0, -1)], "c": [(1, 0, -3)]},
    ]
    # more primes (and a sign) than bases: every prime / parity equation must be applied to the kernel
    fams += [
        {"a": [(1, 0, F(2, 3))], "b": [(1, 0, F(10, 3))]},
        {"a": [(1, 0, F(10, 3))], "b": [(1, 0, F(2, 3))]},
        {"a": [(1, 0, 6)], "b": [(1, 0, 30)], "c": [(1, 0, 210)]},
        {"a": [(1, 0, F(-6, 35))], "b": [(1, 0, F(6, 35))]},
        {"a": [(1, 0, 30)], "b": [(1, 0, F(15, 2))], "c": [(1, 0, 4)]},
        {"a": [(1, 0, F(14, 15))], "b": [(1, 0, F(-21, 10))], "c": [(1, 0, F(4, 9))]},
    ]
    bases = [2, 3, 4, 8, 9, F(1, 2), F(1, 3), -1, -2, 6, F(2, 3), 1, 30, F(10, 3), F(6, 35), F(-15, 2)]
    for _ in range(6 if quick else 80):
        k = rng.randint(2, 3)
        fam = {}
        for name in "abc"[:k]:
            terms = []
            for _ in range(rng.randint(1, 2)):
                terms.append((rng.choice([1, 1, 2, -1, 3]), rng.choice([0, 0, 0, 1]), rng.choice(bases)))
            fam[name] = terms
        fams.append(fam)
    return fams


def cf_text(terms):
    parts = []
    for c, k, b in terms:
        t = f"({F(c)})"
        if k:
            t += f"*n**{k}"
        if F(b) != 1:
            t += f"*(({F(b)})**n)"
        parts.append(t)
    return " + ".join(parts)


def companion(fam):
    """deterministic loop realising the tuple: variables nn (= n) and one geometric sequence per base"""
    bases = sorted({F(b) for terms in fam.values() for _, _, b in terms if F(b) != 1})
    names = {b: f"e{i}" for i, b in enumerate(bases)}
    P = {"vars": ["nn"] + [names[b] for b in bases], "s0": {},
         "init": [("assign", "nn", [(F(1), [])], ("true",), "nn")] +
                 [("assign", names[b], [(F(1), [(F(1), ONE)])], ("true",), names[b]) for b in bases],
         "guard": ("true",),
         "body": [("assign", "nn", [(F(1), [(F(1), V("nn")), (F(1), ONE)])], ("true",), "nn")] +
                 [("assign", names[b], [(F(1), [(b, V(names[b]))])], ("true",), names[b]) for b in bases]}
    goals = {}
    for g, terms in fam.items():
        poly = []
        for c, k, b in terms:
            mono = []
            if k:
                mono.append(("nn", k))
            if F(b) != 1:
                mono.append((names[F(b)], 1))
            poly = gen.padd(poly, [(F(c), tuple(mono))])
        goals[g] = {"kind": "mom", "k": 0, "poly": poly}
    return P, goals, len(P["vars"])


# ---- programs with goal lists

PROGRAMS = [
    ("walk2", "x,y = 0, 0\nwhile true:\n    x = x + 1 {1/2} x - 1\n    y = y + 1 {1/2} y - 1\nend\n", ["E(x)", "E(y)", "c2(x)", "c2(y)"]),
    ("fib", "a,b = 0, 1\nwhile true:\n    a, b = b, a + b\nend\n", ["a", "b"]),
    ("geo", "x = 1\ny = 1\nz = 0\nwhile true:\n    x = 2*x\n    y = 4*y\n    z = z + 1\nend\n", ["x", "y", "z"]),
    ("biased", "x = 0\ny = 0\nwhile true:\n    x = x + 1 {1/3} x\n    y = y + 2 {1/3} y - 1\nend\n", ["E(x)", "E(y)", "E(x**2)"]),
    ("halves", "x = 1\ny = 1\nwhile true:\n    x = x/2\n    y = 2*y + 1\nend\n", ["x", "y"]),
    ("cumul", "x = 0\nwhile true:\n    x = x + 1 {1/2} x + 2\nend\n", ["E(x)", "k2(x)", "k3(x)"]),
    ("rot", "x, y = 1, 0\nwhile true:\n    x, y = -y, x\nend\n", ["x", "y"]),
    ("squares", "x = 0\ny = 0\nwhile true:\n    y = y + 2*x + 1\n    x = x + 1\nend\n", ["x", "y"]),
    ("mixed", "x = 1\ns = 0\nwhile true:\n    s = s + x\n    x = 3*x\nend\n", ["x", "s"]),
    ("coin", "x = 0\nf = 0\nwhile true:\n    f = Bernoulli(1/2)\n    x = x + f\nend\n", ["E(x)", "E(f)", "c2(x)"]),
    ("alt", "x = 1\ny = 0\nwhile true:\n    x = -x\n    y = y + x\nend\n", ["x", "y"]),
    ("sym_scaled", "x = a\ny = c\nz = a*c\nwhile true:\n    x = 3*x\n    y = 3*y\n    z = 9*z\nend\n", ["x", "y", "z"], {"a": "2", "c": "5"}),
    ("sym_offsets", "x = a\ny = 2*a + 1\nwhile true:\n    x = 2*x\n    y = 2*y\nend\n", ["x", "y"], {"a": "3"}),
    ("sym_walk", "x = a\ny = b\nwhile true:\n    x = x + 1 {1/2} x - 1\n    y = y + 2 {1/2} y - 2\nend\n", ["E(x)", "E(y)", "c2(x)", "c2(y)"], {"a": "1", "b": "-2"}),
    ("central_and_cumulant", "x = 0\nb = 0\nwhile true:\n    b = Bernoulli(1/3)\n    x = x/2 + b\nend\n", ["c2(x)", "c4(x)", "k4(x)"]),
    ("cumulant_and_central", "x = 0\nb = 0\nwhile true:\n    b = Bernoulli(1/3)\n    x = x/2 + b\nend\n", ["k4(x)", "c4(x)", "k2(x)"]),
    ("nilp", "x, y, z = 1, 2, 3\nwhile true:\n    x = y\n    y = z\n    z = 0\nend\n", ["x", "y"]),
]


def goal_spec(gid, kinds, variables):
    kind, mono, k = kinds[gid]
    return {"kind": kind, "k": k, "poly": absyn.mono_of(mono)}


def scale_terms(terms):
    """rational-coefficient polynomial -> integer coefficients (common denominator cleared)"""
    den = 1
    for c, _ in terms:
        den = den * F(c).denominator // math.gcd(den, F(c).denominator)
    return [(int(F(c) * den), e) for c, e in terms]


def collect(run, quick, rng, N):
    """runs Polar on all subjects; returns list of subjects with program, goals, K, basis"""
    jobs, subjects = [], {}
    for name, text, goals, *pt in PROGRAMS:
        jobs.append({"kind": "invariants", "id": "prog-" + name, "text": text, "goals": goals, "N": 6, "timeout": 200,
                     "point": pt[0] if pt else {}})
        subjects["prog-" + name] = {"text": text, "goal_names": goals}
    fams = tuple_family(rng, quick)
    for i, fam in enumerate(fams):
        jobs.append({"kind": "invariants", "id": f"tuple-{i}", "closed_forms": {g: cf_text(t) for g, t in fam.items()},
                     "N": 6, "timeout": 200})
        subjects[f"tuple-{i}"] = {"fam": fam}
    # the same analyses later in a process: k generated names were consumed before (C20 meets C06)
    for i, fam in enumerate(fams[:8] if quick else fams[:30]):
        for burn in ((9, 99) if quick else (8, 9, 98, 99, 999)):
            sid = f"tuple-{i}-after{burn}"
            jobs.append({"kind": "invariants", "id": sid, "closed_forms": {g: cf_text(t) for g, t in fam.items()},
                         "N": 6, "timeout": 200, "burn_names": burn})
            subjects[sid] = {"fam": fam}
    # the same set of closed forms in another ORDER was analysed before in the same process
    for i, fam in enumerate(fams[:(12 if quick else 40)]):
        names = list(fam)
        if len(names) < 2:
            continue
        rot = {names[j]: fam[names[(j + 1) % len(names)]] for j in range(len(names))}
        if rot == fam:
            continue
        sid = f"tuple-{i}-afterrotated"
        jobs.append({"kind": "invariants", "id": sid, "closed_forms": {g: cf_text(t) for g, t in fam.items()}, "N": 6, "timeout": 200,
                     "pre": [{g: cf_text(t) for g, t in rot.items()}], "fresh": True})
        subjects[sid] = {"fam": fam}
    # parsed programs (abstract syntax) for the program subjects come from an analyze job
    ajobs = [{"kind": "analyze", "id": "prog-" + name, "text": text, "goals": [], "points": [pt[0] if pt else {}], "N": 0, "want": ["parsed"],
              "timeout": 100} for name, text, _, *pt in PROGRAMS]
    res = pool.run_jobs([j for j in jobs if not j.get("fresh")], per_job_timeout=200)
    res.update(pool.run_jobs([j for j in jobs if j.get("fresh")], per_job_timeout=200, fresh_each=True))
    ares = pool.run_jobs(ajobs, per_job_timeout=100)
    out = []
    for sid, sub in subjects.items():
        r = res.get(sid, {})
        if "basis" not in r:
            sub["refused"] = r.get("stage") or "no-result"
            sub["msg"] = r.get("msg")
            out.append((sid, sub))
            continue
        if "fam" in sub:
            P, goals, order = companion(sub["fam"])
            sub["P"] = P
            sub["goals"] = [goals[g] for g in r["goal_ids"]]
            sub["order"] = order
        else:
            ar = ares.get(sid, {})
            if "parsed" not in ar:
                sub["refused"] = "parse-export"
                out.append((sid, sub))
                continue
            P = absyn.prog(ar["parsed"][0])
            sub["P"] = P
            sub["goals"] = [goal_spec(g, r["kinds"], P["vars"]) for g in r["goal_ids"]]
            sub["order"] = None
        sub["goal_ids"] = r["goal_ids"]
        sub["K"] = max(r["K"], 0)
        sub["basis"] = r["basis"]
        sub["closed_forms"] = r["closed_forms"]
        out.append((sid, sub))
    return out


def main(tier, seed):
    run = Run("C06", "model_checking", tier, seed)
    quick = run.tier == "quick"
    rng = random.Random(run.seed)
    N = 10 if quick else 16
    subs = collect(run, quick, rng, N)
    traces, meta = [], {}
    refused = 0
    for sid, sub in subs:
        if "refused" in sub:
            refused += 1
            continue
        steps = [[] for _ in range(N + 1)]
        nb = 0
        for bi, b in enumerate(sub["basis"]):
            if "terms" not in b:
                run.error(f"{sid}: basis element not a polynomial in the goals: {b}")
                continue
            nb += 1
            terms = scale_terms([(F(c), e) for c, e in b["terms"]])
            for n in range(sub["K"] + 1, N + 1):
                steps[n].append({"t": "inv", "pi": 1, "goals": sub["goals"], "terms": terms, "tag": b["text"][:80]})
        if nb == 0:
            continue
        traces.append({"id": sid, "vars": sub["P"]["vars"], "progs": [sub["P"]], "N": N, "steps": steps})
        meta[sid] = sub
    verdicts, stats, errors = C.run_tlc(traces)
    for tid, e in errors.items():
        (None if e.startswith("tlc timeout") else run.error(f"{tid}: {e}"))
    nfail = 0
    for sid, v in verdicts.items():
        if v["fails"]:
            nfail += 1
            sub = meta[sid]
            tr = next(t for t in traces if t["id"] == sid)
            f0 = v["fails"][0]
            cl = tr["steps"][f0["n"]][f0["i"] - 1]
            run.violation({sid}, {"subject": sub.get("text") or {g: cf_text(t) for g, t in sub["fam"].items()},
                                  "goals": sub["goal_ids"], "basis_element": cl["tag"], "n": f0["n"],
                                  "basis": [b["text"] for b in sub["basis"]],
                                  "failing": sorted({(tr["steps"][f["n"]][f["i"] - 1]["tag"], f["n"]) for f in v["fails"] if f["i"] > 0})[:20]})
    coverage = {"states": stats["distinct"], "transitions": stats["states"], "traces_validated_against_impl": len(verdicts),
                "samples": [{"subject": meta[s].get("text") or {g: cf_text(t) for g, t in meta[s]["fam"].items()},
                             "basis": [b["text"] for b in meta[s]["basis"]]} for s in list(verdicts)[:4]],
                "subjects": len(subs), "subjects_refused": refused,
                "subjects_without_invariants": sum(1 for _, s in subs if "basis" in s and not s["basis"]),
                "basis_elements_checked": sum(len(s["basis"]) for _, s in subs if "basis" in s),
                "N": N, "subjects_with_failures": nfail, "exhaustive": False}
    return run.finish(coverage, ["goal sequences are computed by the spec from the source program / companion loop, never from Polar's closed forms",
                                 "tuples of closed forms use rational bases only (irrational bases enter through programs such as Fibonacci)",
                                 "n ranges over K < n <= N"])
