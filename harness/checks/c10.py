"""C10: reported sensitivities are the parameter derivatives of the exact moments.

The spec's scalars are dual numbers: the parameter p is seeded as p0 + eps wherever it occurs in the abstract
program, so the eps-part of Moment(M, dist) is d/dp E(M) at p0, exactly.  Both Polar methods (sensitivity
recurrences via DiffRecBuilder, differentiated closed form) are bound to it at every n (clause mom, part b);
agreeing with the same behaviour they agree with each other."""
from .. import campaign as C, gen
from ..driver import analysis_check


def dual_source(ctx):
    """source program with the parameter seeded as a dual number"""
    it, pt = ctx.it, ctx.res["points_used"][ctx.pi]
    dp = it["dparam"]

    def f(x):
        if isinstance(x, tuple) and x and x[0] == "par":
            _, name, a, b = x
            v = a * C.F(pt[name]) + b
            return (v, a) if name == dp else v
        return x
    P = gen.map_scalars(it["T"], f)
    ctx.src = ctx.add_prog(P)
    ctx.srcP = P


def main(tier, seed):
    quick = tier == "quick"
    items = []
    for it in C.generated(seed, 30 if quick else 250, profile={"params": True}, ngoals=4, prefix="sens"):
        if "p" in it["params"]:
            it["dparam"] = "p"
            items.append(it)
    for it in C.generated(seed + 7, 12 if quick else 80, profile={"params": False, "sym_init": True}, ngoals=4, prefix="sensi"):
        inits = [p for p in it["params"] if p.endswith("0")]
        if inits:
            it["dparam"] = inits[0]
            items.append(it)
    return analysis_check("C10", tier, seed, items=items, want=["sens"], builders=[dual_source, C.b_sens],
                          N=5 if quick else 8, timeout=150,
                          assumptions=["parameters occur in probabilities and symbolic initial values of generated programs (coefficients: corpus only)"])
