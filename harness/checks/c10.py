"""C10: reported sensitivities are the parameter derivatives of the exact moments.

The spec's scalars are dual numbers: the parameter p is seeded as p0 + eps wherever it occurs in the abstract
program, so the eps-part of Moment(M, dist) is d/dp E(M) at p0, exactly.  Both Polar methods (sensitivity
recurrences via DiffRecBuilder, differentiated closed form) are bound to it at every n (clause mom, part b);
agreeing with the same behaviour they agree with each other."""
from .. import campaign as C, gen
from ..driver import analysis_check


def dual_source(ctx):
    """source program with the parameter seeded as a dual number"""
    it, pt = ctx.it, ctx.res["points_used"][ctx.pi]
    dp = it["dparam"]

    def f(x):
        if isinstance(x, tuple) and x and x[0] == "par":
            _, name, a, b = x
            v = a * C.F(pt[name]) + b
            return (v, a) if name == dp else v
        return x
    P = gen.map_scalars(it["T"], f)
    ctx.src = ctx.add_prog(P)
    ctx.srcP = P


def fixed_param_templates():
    ONE = ()
    F = C.F

    def V(v, e=1):
        return ((v, e),)

    def asg(v, poly):
        return ("assign", v, [(F(1), poly)], ("true",), v)
    P = ("par", "p", F(1), F(0))
    out = []
    # dependence on the parameter only through another variable's initial value
    out.append(("init_chain", {"vars": ["w", "x", "y", "z"], "s0": {}, "guard": ("true",),
                               "init": [asg("x", [(P, ONE)]), asg("y", [(F(1), V("x", 2)), (F(1), ONE)]), asg("z", []),
                                        asg("w", [(F(1), V("x", 2)), (F(2), V("x"))])],
                               "body": [("assign", "x", [(F(1, 2), [(F(1), V("x")), (F(1), ONE)]), (F(1, 2), [(F(1), V("x"))])], ("true",), "x"),
                                        asg("y", [(F(1), V("y")), (F(1), V("x"))]),
                                        asg("z", [(F(1), V("z")), (F(1), V("y"))]),
                                        # w depends on p only through x's INITIAL value
                                        ("assign", "w", [(F(1, 2), [(F(2), V("w"))]), (F(1, 2), [(F(1), V("w")), (F(1), ONE)])], ("true",), "w")]},
                ["x", "y", "z", "y**2", "w", "w**2"]))
    # a dependence chain that runs against the program order
    out.append(("long_chain", {"vars": ["a", "b", "c", "d"], "s0": {}, "guard": ("true",),
                               "init": [asg(v, []) for v in "abcd"],
                               "body": [asg("a", [(F(1), V("a")), (F(1), V("b"))]), asg("b", [(F(1), V("b")), (F(1), V("c"))]),
                                        asg("c", [(F(1), V("c")), (F(1), V("d"))]),
                                        ("assign", "d", [(P, [(F(1), V("d")), (F(1), ONE)]), (("par", "p", F(-1), F(1)), [(F(1), V("d"))])], ("true",), "d")]},
                ["a", "b", "a**2", "d"]))
    # parameter as a coefficient
    out.append(("coefficient", {"vars": ["x", "y"], "s0": {}, "guard": ("true",),
                                "init": [asg("x", [(F(1), ONE)]), asg("y", [])],
                                "body": [asg("x", [(P, V("x")), (F(1), ONE)]), asg("y", [(F(1), V("y")), (P, V("x", 2))])]},
                ["x", "y", "x*y"]))
    # closed forms with a transient (delay line): the special cases for small n have derivatives too
    out.append(("delay_line", {"vars": ["s", "x", "y", "z"], "s0": {}, "guard": ("true",),
                               "init": [asg("x", [(F(1), ONE)]), asg("y", [(F(2), ONE)]), asg("z", [(P, ONE)]), asg("s", [])],
                               "body": [asg("z", [(F(1), V("y"))]), asg("y", [(F(1), V("x"))]),
                                        ("assign", "x", [(P, [(F(1), ONE)]), (("par", "p", F(-1), F(1)), [])], ("true",), "x"),
                                        asg("s", [(F(1), V("s")), (F(1), V("z"))])]},
                ["x", "y", "z", "s", "s**2", "y*z"]))
    # a loop constant whose value depends on the parameter, used as a factor of the goal and in the body
    out.append(("constant_of_parameter", {"vars": ["c", "x"], "s0": {}, "guard": ("true",),
                                          "init": [asg("c", [(("par", "p", F(2), F(0)), ONE)]), asg("x", [])],
                                          "body": [("assign", "x", [(P, [(F(1), V("x")), (F(1), ONE)]), (("par", "p", F(-1), F(1)), [(F(1), V("x"))])], ("true",), "x")]},
                ["x", "c*x", "c*x**2", "c"]))
    items = []
    for name, T, goals in out:
        items.append({"id": "ptmpl-" + name, "text": gen.render(gen.to_text_template(T)), "T": T, "params": ["p"],
                      "points": [{"p": "1/3"}, {"p": "3/4"}], "goals": goals, "dparam": "p", "origin": "fixed parametric template " + name,
                      "want_extra": ["sens_cli"]})
    return items


def main(tier, seed):
    quick = tier == "quick"
    items = fixed_param_templates()
    for it in C.generated(seed, 20 if quick else 100, profile={"params": True}, ngoals=4, prefix="sens"):
        if "p" in it["params"]:
            it["dparam"] = "p"
            if len(items) < (9 if quick else 40):
                it["want_extra"] = ["sens_cli"]      # the printed output of the action itself, for some of them
            items.append(it)
    for it in C.generated(seed + 7, 8 if quick else 40, profile={"params": False, "sym_init": True}, ngoals=4, prefix="sensi"):
        inits = [p for p in it["params"] if p.endswith("0")]
        if inits:
            it["dparam"] = inits[0]
            items.append(it)
    return analysis_check("C10", tier, seed, items=items, want=["sens"], builders=[dual_source, C.b_sens, C.b_sens_cli],
                          N=6 if quick else 8, timeout=150,
                          assumptions=["parameters occur in probabilities and symbolic initial values of generated programs (coefficients: corpus only)"])
