"""C05: inferred finite types contain every value a variable can ever take.

The normalized program (with Polar's inferred types) is executed by spec/LoopDist.tla under the IR semantics
"x = rhs | cond : default"; the clause `supp' is evaluated over every store that exists at any point of any
execution (after each assignment, in every iteration, frozen iterations included)."""
from .. import campaign as C
from ..driver import analysis_check, standard_items


def main(tier, seed):
    items = standard_items(seed, tier, 24, 300, bench_quick=8, ps_quick=20, ps_thorough=220)
    variants = [("", {})] if tier == "quick" else [("", {}), ("-fp1", {"type_fp_iterations": 1}), ("-fp2", {"type_fp_iterations": 2})]
    if tier == "quick":
        variants.append(("-fp1", {"type_fp_iterations": 1}))
    return analysis_check("C05", tier, seed, items=items, want=["normalized", "types"], variants=variants,
                          builders=[C.b_normalized, C.b_types], N=5 if tier == "quick" else 8,
                          assumptions=["user-declared types are taken as given (not checked)",
                                       "infinite-state programs are explored to depth N only; finite-state ones until the reachable set closes when that happens within N"])


def replay(path):
    from ..driver import replay_analysis
    return replay_analysis("C05", path, want=["normalized", "types"], builders=[C.b_normalized, C.b_types], N=5, variants=[("", {}), ("-fp1", {"type_fp_iterations": 1}), ("-fp2", {"type_fp_iterations": 2})])
