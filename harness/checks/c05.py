"""C05: inferred finite types contain every value a variable can ever take.

The normalized program (with Polar's inferred types) is executed by spec/LoopDist.tla under the IR semantics
"x = rhs | cond : default"; the clause `supp' is evaluated over every store that exists at any point of any
execution (after each assignment, in every iteration, frozen iterations included)."""
from .. import campaign as C
from ..driver import analysis_check, standard_items


def typer_part(ctx):
    """spec/Typer.tla: the fixed-point typer as a machine with one action per sweep; the state recorded after every
    real _progress call must be the model's.  Deviations are VIOLATIONs of C05 only when the resulting types differ
    from the model's in the unsound direction (a variable typed although the model fails it, or a value set that is
    smaller than the model's); a typer that is merely less precise than the model is reported as a NOTE."""
    from fractions import Fraction as F
    from .. import absyn, encode as E, pool, tlc
    run = ctx["run"]
    quick = run.tier == "quick"
    picks = [it for it in ctx["items"] if it.get("text")][: (30 if quick else 150)]
    jobs = []
    for fp in ((100, 1) if quick else (100, 1, 2, 3)):
        for it in picks:
            jobs.append({"kind": "typer", "id": f"{it['id']}|fp{fp}", "text": it["text"], "settings": {"type_fp_iterations": fp}, "timeout": 60})
    res = pool.run_jobs(jobs, per_job_timeout=90)
    by_D, meta = {}, {}
    skipped = 0
    for j in jobs:
        r = res.get(j["id"], {})
        if "sweeps" not in r or "init" not in r:
            skipped += 1
            continue
        vars_ = sorted(set(r["vars"]) | set(r["init"]))
        idx = {v: i + 1 for i, v in enumerate(vars_)}
        try:
            nums = []

            def vals(o, v):
                e = o.get(v, {"vals": [], "failed": False, "locked": False, "changed": False})
                xs = [F(x) for x in e["vals"]]          # symbolic values raise ValueError: numeric programs only
                nums.extend(xs)
                return {"vals": xs, "failed": e["failed"], "locked": e["locked"], "changed": e["changed"]}
            init = [vals(r["init"], v) for v in vars_]
            sweeps = [[vals(o, v) for v in vars_] for o in r["sweeps"]]
            body = []
            for st in r["body"]:
                exprs = [absyn.poly(p) for p in st["exprs"]]
                for p in exprs:
                    nums.extend(c for c, _m in p)
                body.append({"v": idx[st["v"]], "interval": st["interval"], "exprs": exprs})
            D = E.choose_D(nums)
            enc = E.Encoder(vars_)

            def encst(stt):
                return [{"vals": [E.enc_r(x, D) for x in e["vals"]], "failed": e["failed"], "locked": e["locked"], "changed": e["changed"]} for e in stt]
            tr = {"id": j["id"].replace("|", "_").replace("/", "_"), "nv": len(vars_), "maxvals": r["maxvals"], "iterations": r["iterations"],
                  "init": encst(init), "sweeps": [encst(x) for x in sweeps],
                  "body": [{"v": b["v"], "interval": b["interval"], "exprs": [enc.poly(p, D) for p in b["exprs"]]} for b in body]}
        except (ValueError, E.NotDadic, KeyError, ZeroDivisionError):
            skipped += 1
            continue
        by_D.setdefault(D, []).append(tr)
        meta[tr["id"]] = (j, r, vars_)
    out = {"typer_traces": 0, "typer_sweeps": 0, "typer_programs_skipped_symbolic_or_refused": skipped, "typer_mismatches": 0,
           "typer_states": 0}
    for D, trs in sorted(by_D.items()):
        ok, gen_, distinct, verdicts, tail = tlc.run_spec("Typer", {"D": D, "traces": trs}, workers=8)
        if not ok:
            run.error("TLC Typer: " + tail)
            continue
        out["typer_states"] += distinct
        for tr in trs:
            v = verdicts.get(tr["id"])
            if v is None:
                run.error(f"typer trace {tr['id']}: no verdict")
                continue
            out["typer_traces"] += 1
            out["typer_sweeps"] += v["sweeps"]
            if not v["fails"]:
                continue
            out["typer_mismatches"] += 1
            j, r, vars_ = meta[tr["id"]]
            model_failed = {vars_[i - 1] for i in v["failed"]}
            typed = set(r.get("typedefs", {}))
            unsound = sorted(typed & model_failed)
            detail = {"clause": "typer run is not a behaviour of spec/Typer.tla", "program": j["text"], "settings": j["settings"],
                      "failures": v["fails"][:4], "typed_although_the_model_fails_them": unsound}
            if unsound or any(f.get("clause") in ("not a fixed point", "reads a failed variable but is not failed") for f in v["fails"]):
                run.violation({j["id"]}, detail)
            else:
                print(f"NOTE typer deviates from spec/Typer.tla without an unsound type: {j['id']} {v['fails'][:1]}")
                out.setdefault("typer_notes", []).append({"id": j["id"], "fails": v["fails"][:2]})
    return out


def main(tier, seed):
    items = standard_items(seed, tier, 12, 60, bench_quick=4, ps_quick=8, ps_thorough=60, bench_thorough=15)
    variants = [("", {})] if tier == "quick" else [("", {}), ("-fp1", {"type_fp_iterations": 1}), ("-fp2", {"type_fp_iterations": 2})]
    if tier == "quick":
        variants.append(("-fp1", {"type_fp_iterations": 1}))
    return analysis_check("C05", tier, seed, items=items, want=["normalized", "types"], variants=variants,
                          builders=[C.b_normalized, C.b_types], N=5 if tier == "quick" else 8, post=typer_part,
                          assumptions=["user-declared types are taken as given (not checked)",
                                       "infinite-state programs are explored to depth N only; finite-state ones until the reachable set closes when that happens within N"])


def replay(path):
    from ..driver import replay_analysis
    return replay_analysis("C05", path, want=["normalized", "types"], builders=[C.b_normalized, C.b_types], N=5, variants=[("", {}), ("-fp1", {"type_fp_iterations": 1}), ("-fp2", {"type_fp_iterations": 2})])
