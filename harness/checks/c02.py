"""C02: normalization preserves the distribution over the source variables, pass by pass.

progs[1] is the source program (the generator's abstract program, or Polar's parse for repository files),
progs[2..] are the programs observed after every pass that actually ran (run-time wrappers around every
Transformer.execute).  One LoopDist behaviour steps all of them; clause `equiv' compares the joint law of
the source variables at every iteration boundary.  Auxiliaries start at poison values, so an auxiliary that
is read before it is written, or that carries information across iterations, changes the law."""
from .. import campaign as C
from ..driver import analysis_check, standard_items


def pipeline_part(ctx):
    """spec/Pipeline.tla: the contracts of the passes compose (model mode, every fact set), and the structural
    facts observed after every pass of every analysis are steps of that machine (trace mode).  The contracts are
    design knowledge about the pipeline, not one of the listed properties: a mismatch is reported in the evidence
    (and printed), it is not a VIOLATION of C02."""
    from .. import tlc
    run = ctx["run"]
    out = {"pipeline_model_states": 0, "pipeline_traces": 0, "pipeline_contract_mismatches": 0, "pipeline_mismatch_examples": []}
    ok, gen, distinct, _, tail = tlc.run_spec("Pipeline", {"mode": "model", "traces": []}, workers=4)
    if not ok:
        run.error("TLC Pipeline (model): " + tail)
    out["pipeline_model_states"] = distinct
    traces, texts = [], {}
    settings = dict(ctx.get("variants") or [])
    for suffix, results in ctx["results"].items():
        st = settings.get(suffix, {})
        for it in ctx["items"]:
            r = results.get(it["id"]) or {}
            if "feat0" not in r or not r.get("passes"):
                continue
            steps = [{"pass": sn["pass"], "feat": sn["feat"]} for sn in r["passes"] if "feat" in sn]
            if len(steps) != len(r["passes"]):
                continue
            tid = f"pl{len(traces)}"
            texts[tid] = (it["id"], suffix, it.get("text"))
            traces.append({"id": tid, "f0": r["feat0"], "steps": steps, "completed": r.get("stage") not in ("parse", "normalize", "timeout", "crash"),
                           "c2a": bool(st.get("cond2arithm")), "noinfer": bool(st.get("disable_type_inference"))})
    if traces:
        ok, gen, distinct, verdicts, tail = tlc.run_spec("Pipeline", {"mode": "trace", "traces": traces}, workers=4)
        if not ok:
            run.error("TLC Pipeline (trace): " + tail)
        for t in traces:
            v = verdicts.get(t["id"])
            if v is None:
                if ok:
                    run.error(f"pipeline trace {t['id']}: no verdict")
                continue
            out["pipeline_traces"] += 1
            if v["fails"]:
                out["pipeline_contract_mismatches"] += 1
                if len(out["pipeline_mismatch_examples"]) < 5:
                    out["pipeline_mismatch_examples"].append({"item": texts[t["id"]][0], "variant": texts[t["id"]][1],
                                                              "fails": v["fails"], "trace": t})
                print(f"NOTE pipeline contract mismatch (not a C02 violation): {texts[t['id']][0]}{texts[t['id']][1]} {v['fails'][:2]}")
    return out


def post_all(ctx):
    from .. import abstraction
    cov = pipeline_part(ctx)
    cov.update(abstraction.part(ctx["run"], ctx["run"].tier, ctx["run"].seed, "equiv"))
    return cov


def main(tier, seed):
    items = standard_items(seed, tier, 8, 40, bench_quick=3, corpus_quick=10, ps_quick=6, ps_thorough=60, bench_thorough=15)
    variants = [("", {}), ("-c2a", {"cond2arithm": True}), ("-tc", {"transform_categoricals": True})]
    if tier != "quick":
        variants.append(("-c2a-tc", {"cond2arithm": True, "transform_categoricals": True}))
    return analysis_check("C02", tier, seed, items=items, want=["parsed", "passes"], variants=variants,
                          builders=[C.b_source, C.b_passes], N=4 if tier == "quick" else 6, post=post_all,
                          assumptions=["passes whose output contains an abstracted probability symbol (_probN) are not compared",
                                       "trivial_guard is excluded (changes the meaning by design)"])


def replay(path):
    from ..driver import replay_analysis
    return replay_analysis("C02", path, want=["parsed", "passes"], builders=[C.b_source, C.b_passes], N=4, variants=[("", {}), ("-c2a", {"cond2arithm": True}), ("-tc", {"transform_categoricals": True}), ("-c2a-tc", {"cond2arithm": True, "transform_categoricals": True})])
