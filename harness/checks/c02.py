"""C02: normalization preserves the distribution over the source variables, pass by pass.

progs[1] is the source program (the generator's abstract program, or Polar's parse for repository files),
progs[2..] are the programs observed after every pass that actually ran (run-time wrappers around every
Transformer.execute).  One LoopDist behaviour steps all of them; clause `equiv' compares the joint law of
the source variables at every iteration boundary.  Auxiliaries start at poison values, so an auxiliary that
is read before it is written, or that carries information across iterations, changes the law."""
from .. import campaign as C
from ..driver import analysis_check, standard_items


def main(tier, seed):
    items = standard_items(seed, tier, 14, 300, bench_quick=5, corpus_quick=14)
    variants = [("", {}), ("-c2a", {"cond2arithm": True}), ("-tc", {"transform_categoricals": True})]
    if tier != "quick":
        variants.append(("-c2a-tc", {"cond2arithm": True, "transform_categoricals": True}))
    return analysis_check("C02", tier, seed, items=items, want=["parsed", "passes"], variants=variants,
                          builders=[C.b_source, C.b_passes], N=4 if tier == "quick" else 6,
                          assumptions=["passes whose output contains an abstracted probability symbol (_probN) are not compared",
                                       "trivial_guard is excluded (changes the meaning by design)"])


def replay(path):
    from ..driver import replay_analysis
    return replay_analysis("C02", path, want=["parsed", "passes"], builders=[C.b_source, C.b_passes], N=4, variants=[("", {}), ("-c2a", {"cond2arithm": True}), ("-tc", {"transform_categoricals": True}), ("-c2a-tc", {"cond2arithm": True, "transform_categoricals": True})])
