"""C03: moment recurrences are exact one-step expectation identities, have the right initial values, and are closed.

For every equation E(M)' = rhs of every system RecBuilder.get_recurrences produces, on the *normalized*
program as Polar holds it (exported statement by statement), spec/LoopTrace.tla checks at every step of the
LoopDist behaviour: (recE) E_n[M] = E_{n-1}[rhs]; (recpt) for every reachable store s,
E[M(next) | s] = rhs(s) (with exact initial values this is an induction over n); (mom, n = 0) the recorded
initial value.  Closedness and constancy of the coefficients are structural facts recorded by the worker.
"""
from .. import campaign as C
from ..driver import analysis_check, standard_items


def post(ctx):
    run = ctx["run"]
    nsys = nclosed = 0
    for suffix, results in ctx["results"].items():
        for iid, res in results.items():
            for g, go in (res.get("goals") or {}).items():
                recs = go.get("recs")
                if not recs:
                    continue
                nsys += 1
                if recs["closed"] and not recs["coeff_has_var"]:
                    nclosed += 1
                else:
                    it = next(i for i in ctx["items"] if i["id"] == iid)
                    run.violation({iid, f"{iid}:{g}"}, {"program": it["text"], "goal": g, "clause": "closedness",
                                                         "closed": recs["closed"], "coeff_has_var": recs["coeff_has_var"],
                                                         "monomials": recs["monomials"][:30]})
    return {"recurrence_systems": nsys, "systems_closed_with_constant_coefficients": nclosed}


def main(tier, seed):
    items = standard_items(seed, tier, 18, 250, bench_quick=6)
    return analysis_check("C03", tier, seed, items=items, want=["normalized", "recs"],
                          builders=[C.b_normalized, C.b_recs], N=4 if tier == "quick" else 6, post=post,
                          assumptions=["the program judged is Polar's normalized program as exported by the harness "
                                       "(statement list with conditions/defaults); that it means the same as the source is C02",
                                       "pointwise identity is checked on the stores reachable within N iterations"])


def replay(path):
    from ..driver import replay_analysis
    return replay_analysis("C03", path, want=["normalized", "recs"], builders=[C.b_normalized, C.b_recs], N=4)
