"""C03: moment recurrences are exact one-step expectation identities, have the right initial values, and are closed.

For every equation E(M)' = rhs of every system RecBuilder.get_recurrences produces, on the *normalized*
program as Polar holds it (exported statement by statement), spec/LoopTrace.tla checks at every step of the
LoopDist behaviour: (recE) E_n[M] = E_{n-1}[rhs]; (recpt) for every reachable store s,
E[M(next) | s] = rhs(s) (with exact initial values this is an induction over n); (mom, n = 0) the recorded
initial value.  Closedness and constancy of the coefficients are structural facts recorded by the worker.
"""
from .. import campaign as C
from ..driver import analysis_check, standard_items


def post(ctx):
    run = ctx["run"]
    nsys = nclosed = 0
    for suffix, results in ctx["results"].items():
        for iid, res in results.items():
            for g, go in (res.get("goals") or {}).items():
                recs = go.get("recs")
                if not recs:
                    continue
                nsys += 1
                if recs["closed"] and not recs["coeff_has_var"]:
                    nclosed += 1
                else:
                    it = next(i for i in ctx["items"] if i["id"] == iid)
                    run.violation({iid, f"{iid}:{g}"}, {"program": it["text"], "goal": g, "clause": "closedness",
                                                         "closed": recs["closed"], "coeff_has_var": recs["coeff_has_var"],
                                                         "monomials": recs["monomials"][:30]})
    return {"recurrence_systems": nsys, "systems_closed_with_constant_coefficients": nclosed}


def worklist_part(ctx):
    """spec/Worklist.tla: (model) every dependency relation over 4 nodes, every pop order: closed and confluent;
    (trace) the pop orders of the real get_recurrences under several hash seeds are behaviours of the worklist
    and end in the closure, with the same system for every seed"""
    import json
    import os
    import shutil
    import subprocess
    import tempfile
    from .. import pool, tlc
    run = ctx["run"]
    quick = run.tier == "quick"
    picks = []
    for it in ctx["items"]:
        gs = it.get("goals") or []
        if gs and it.get("text") and len(picks) < (6 if quick else 60):
            picks.append({"wid": it["id"], "text": it["text"], "goal": gs[-1], "timeout": 60})
    seeds = ["0", "1", "2", "3"] if quick else ["0", "1", "2", "3", "4", "5", "6", "7"]
    obs = {}
    for hs in seeds:
        jobs = [{"kind": "worklist", "id": f"wl{i}", "items": picks[i:i + 5], "timeout": 600} for i in range(0, len(picks), 5)]
        res = pool.run_jobs(jobs, per_job_timeout=600, hashseed=hs, fresh_each=True)
        for r in res.values():
            for o in r.get("items", []):
                obs[(o["wid"], hs)] = o
    traces = []
    systems = {}
    for (wid, hs), o in obs.items():
        if "order" not in o:
            continue
        names = sorted(set(o["deps"]) | {d for ds in o["deps"].values() for d in ds} | set(o["order"]) | {o["start"]})
        idx = {m: i + 1 for i, m in enumerate(names)}
        traces.append({"id": f"{wid}-hs{hs}".replace("/", "_"), "n": len(names), "start": idx[o["start"]],
                       "deps": [[idx[d] for d in o["deps"].get(m, [])] for m in names], "order": [idx[m] for m in o["order"]]})
        systems.setdefault(wid, {})[hs] = (tuple(sorted(o["deps"])), tuple(o["order"]))
    out = {"worklist_model_states": 0, "worklist_traces": 0, "worklist_distinct_orders": 0}
    for mode, payload in (("model", {"mode": "model", "nodes": 4, "traces": []}), ("trace", {"mode": "trace", "nodes": 0, "traces": traces})):
        if mode == "trace" and not traces:
            continue
        work = tempfile.mkdtemp(prefix="verif-wl-")
        try:
            batch = os.path.join(work, "batch.json")
            outdir = os.path.join(work, "out")
            os.mkdir(outdir)
            json.dump(payload, open(batch, "w"))
            cmd = ["java", "-XX:+UseParallelGC", "-Xmx6g", "-cp", tlc.TLC_CP, "tlc2.TLC", "-workers", "8", "-metadir",
                   os.path.join(work, "meta"), "-noGenerateSpecTE", "-config", os.path.join(tlc.SPEC_DIR, "Worklist.cfg"),
                   os.path.join(tlc.SPEC_DIR, "Worklist.tla")]
            p = subprocess.run(cmd, cwd=tlc.SPEC_DIR, env=dict(os.environ, BATCH_FILE=batch, OUT_DIR=outdir), capture_output=True,
                               text=True, timeout=3000)
            m = tlc._STATS_RE.search(p.stdout)
            if p.returncode != 0 or not m:
                run.error(f"TLC Worklist ({mode}): " + p.stdout[-2000:])
                continue
            if mode == "model":
                out["worklist_model_states"] = int(m.group(2))
            else:
                for t in traces:
                    vf = os.path.join(outdir, t["id"] + ".json")
                    if not os.path.exists(vf):
                        run.error(f"worklist trace {t['id']}: no verdict")
                        continue
                    v = json.load(open(vf))
                    out["worklist_traces"] += 1
                    if not (v["accepted"] and v["closed"] and v["isClosure"]):
                        run.violation({"worklist:" + t["id"]}, {"clause": "worklist behaviour / closure", "verdict": v, "trace": t})
        finally:
            shutil.rmtree(work, ignore_errors=True)
    for wid, per in systems.items():
        out["worklist_distinct_orders"] += len({o for _, o in per.values()}) - 1
        if len({s for s, _ in per.values()}) > 1:
            run.violation({"worklist-seed:" + wid}, {"clause": "recurrence system depends on the hash seed",
                                                    "systems": {hs: s for hs, (s, _) in per.items()}})
    return out


def post_all(ctx):
    cov = post(ctx) or {}
    cov.update(worklist_part(ctx))
    return cov


def main(tier, seed):
    items = standard_items(seed, tier, 10, 50, bench_quick=3, ps_quick=6, ps_thorough=60, bench_thorough=15)
    return analysis_check("C03", tier, seed, items=items, want=["normalized", "recs"],
                          builders=[C.b_normalized, C.b_recs], N=4 if tier == "quick" else 6, post=post_all,
                          assumptions=["the program judged is Polar's normalized program as exported by the harness "
                                       "(statement list with conditions/defaults); that it means the same as the source is C02",
                                       "pointwise identity is checked on the stores reachable within N iterations"])


def replay(path):
    from ..driver import replay_analysis
    return replay_analysis("C03", path, want=["normalized", "recs"], builders=[C.b_normalized, C.b_recs], N=4)
