"""C16: exponent-lattice bases consist of, and generate, all multiplicative relations.

For every list of bases, Polar's ExponentLattice.compute_basis() is recorded and judged by
spec/ExpLattice.tla: TLC scans every integer exponent vector of the box [-B, B]^k and checks soundness of
every basis vector, linear independence, and completeness (every relation in the box is an integer
combination of the basis) with exact arithmetic in Q, Q(i) and Q(sqrt d)."""
import itertools
import json
import os
import random
import shutil
import subprocess
import tempfile
from fractions import Fraction as F

from .. import encode as E, pool, tlc
from ..report import Run

RATIONALS = [F(2), F(-2), F(3), F(-3), F(4), F(8), F(9), F(27), F(1, 2), F(1, 3), F(1, 4), F(2, 3), F(1), F(-1),
             F(6), F(12), F(3, 2), F(-1, 2), F(10), F(5)]


def rat(x):
    x = F(x)
    return {"a": x.numerator, "b": 0, "den": x.denominator, "txt": str(x)}


def quad(a, b, den, d):
    if d == -1:
        txt = f"(({a}) + ({b})*I)/({den})"
    else:
        txt = f"(({a}) + ({b})*sqrt({d}))/({den})"
    return {"a": a, "b": b, "den": den, "txt": txt}


def relation_rank(qs):
    import sympy
    primes = sorted({p for q in qs for n in (abs(q.numerator), q.denominator) for p in sympy.factorint(n)})
    if not primes:
        return len(qs)
    M = sympy.Matrix([[sympy.multiplicity(p, abs(q.numerator)) - sympy.multiplicity(p, q.denominator) for p in primes] for q in qs])
    return len(qs) - M.rank()


def lists_rational(rng, quick):
    out = []
    for k in (1, 2, 3):
        combos = list(itertools.product(RATIONALS, repeat=k))
        out += [{"d": 1, "bases": [rat(x) for x in c]} for c in combos]
    rng.shuffle(out)
    fixed = [[4, 8], [4, F(1, 2)], [1, 2], [2, 3, 6], [2, 3, 12], [-2, 3, -6], [F(2, 3), F(3, 2)], [2, 4, 8], [-1, -1],
             [-1, 1], [9, 27, 3], [-8, 4, -2], [F(1, 4), 8, 2], [6, 12, 2], [10, 2, 5], [-4, 16], [F(-1, 2), F(1, 4)],
             [12, 18, F(2, 3)], [-1], [1], [2], [F(1, 2), 2], [4, 4], [-2, -2], [-3, 9, -27]]
    # towers over one prime: multiplicities with a common divisor that does not divide the others (the integer kernel
    # needs unimodular elimination steps), also next to an unrelated base and with signs
    fixed += [[4, 8, 32], [8, 32, 4], [32, 4, 8], [9, 27, 243], [4, 32, 8, 5], [F(4, 9), F(8, 27), F(32, 243)], [-2, F(-1, 4), F(-1, 4)],
              [16, 64, F(1, 32)], [-4, -8, -32], [F(1, 4), F(1, 8), 32], [4, 8, 32, 2], [-1, -1, 2], [-2, F(1, 2), -3, F(1, 3)]]
    # numerators and denominators built from primes far above any trial-division limit
    P, Q = 1000000007, 370000000003
    fixed += [[P * Q, P, Q], [F(1, P * Q), P, Q], [2 * P * Q, 2 * P, Q], [F(P, Q), F(Q, P)], [P * P * Q, P, P * Q], [F(P * Q, 3), F(P, 3), Q],
              [P * Q, Q, 7]]
    TOWER = [2, 4, 8, 16, 32, F(1, 2), F(1, 4), F(1, 8), -2, -4, -8, 3, 9, F(1, 9)]
    towers = [{"d": 1, "bases": [rat(x) for x in c]} for c in itertools.product(TOWER, repeat=3)]
    rng.shuffle(towers)
    fx = [{"d": 1, "bases": [rat(x) for x in c]} for c in fixed]
    # lists of length 4: relations that need all four bases, units next to towers, repeated bases
    MENU4 = [2, 3, 4, 6, 9, 12, F(1, 2), F(2, 3), F(3, 2), F(1, 6), -1, -2, -3, 1, 5, 10, F(4, 9), 18]
    fours = [{"d": 1, "bases": [rat(x) for x in c]} for c in
             [[2, 3, 6, 12], [2, 3, 5, 30], [-2, -3, 6, -1], [F(2, 3), F(3, 2), 6, 1], [2, 2, 3, 3], [4, 9, 6, 36],
              [2, F(1, 3), F(2, 3), 5], [-1, 2, -2, 4], [10, 2, 5, F(1, 10)], [12, 18, 2, 3]]]
    sample4 = [{"d": 1, "bases": [rat(x) for x in rng.sample(MENU4, 4)]} for _ in range(12 if quick else 400)]
    sample4 += [{"d": 1, "bases": [rat(rng.choice(MENU4)) for _ in range(4)]} for _ in range(8 if quick else 300)]
    # the relation lattice of rationals has rank k - rank(prime multiplicity matrix); lists of rank > 2 are left out
    # (spec/ExpLattice.tla decides independence up to three vectors and the span search is cubic in the coefficient box)
    fours = [l for l in fours + sample4 if relation_rank([F(b["a"], b["den"]) for b in l["bases"]]) <= 2]
    return fx + out[:(110 if quick else 2500)] + towers[:(50 if quick else 2744)] + fours


def lists_quadratic(rng, quick):
    G = [quad(0, 1, 1, -1), quad(0, -1, 1, -1), quad(1, 1, 1, -1), quad(1, -1, 1, -1), quad(2, 0, 1, -1), quad(-1, 0, 1, -1),
         quad(1, 1, 2, -1), quad(0, 2, 1, -1), quad(-4, 0, 1, -1), quad(3, 4, 5, -1), quad(3, -4, 5, -1), quad(1, 2, 1, -1),
         quad(5, 0, 1, -1), quad(1, -2, 1, -1)]
    S2 = [quad(0, 1, 1, 2), quad(1, 1, 1, 2), quad(1, -1, 1, 2), quad(2, 0, 1, 2), quad(3, 2, 1, 2), quad(-1, 0, 1, 2),
          quad(3, -2, 1, 2), quad(0, 1, 2, 2)]
    S5 = [quad(1, 1, 2, 5), quad(1, -1, 2, 5), quad(-1, 0, 1, 5), quad(3, 1, 2, 5), quad(0, 1, 1, 5), quad(5, 0, 1, 5),
          quad(2, 1, 1, 5), quad(2, -1, 1, 5)]
    # Eisenstein numbers: roots of unity of order 3 and 6, sqrt(-3), and rationals next to them
    E3 = [quad(1, 1, 2, -3), quad(1, -1, 2, -3), quad(-1, 1, 2, -3), quad(-1, -1, 2, -3), quad(0, 1, 1, -3), quad(3, 1, 2, -3),
          quad(-1, 0, 1, -3), quad(2, 0, 1, -3), quad(3, 0, 1, -3), quad(1, 1, 1, -3)]
    out = []
    for d, pool_ in ((-1, G), (2, S2), (5, S5), (-3, E3)):
        for k in (1, 2, 3):
            for c in itertools.product(pool_, repeat=k):
                if all(x["b"] == 0 for x in c):
                    continue
                out.append({"d": d, "bases": list(c)})
    rng.shuffle(out)
    fixed = [{"d": -1, "bases": [quad(0, 1, 1, -1)]}, {"d": -1, "bases": [quad(1, 1, 1, -1), quad(1, -1, 1, -1), quad(2, 0, 1, -1)]},
             {"d": 5, "bases": [quad(1, 1, 2, 5), quad(1, -1, 2, 5)]}, {"d": 2, "bases": [quad(1, 1, 1, 2), quad(1, -1, 1, 2)]},
             {"d": 2, "bases": [quad(0, 1, 1, 2), quad(2, 0, 1, 2)]}, {"d": -1, "bases": [quad(3, 4, 5, -1), quad(3, -4, 5, -1)]},
             {"d": -1, "bases": [quad(0, 1, 1, -1), quad(-1, 0, 1, -1)]}, {"d": 5, "bases": [quad(1, 1, 2, 5), quad(3, 1, 2, 5)]},
             # non-integral bases of modulus slightly above 1 (small heights)
             {"d": -1, "bases": [quad(20, 1, 20, -1), quad(20, -1, 20, -1), quad(401, 0, 400, -1)]},
             {"d": -1, "bases": [quad(10, 1, 10, -1), quad(10, -1, 10, -1), quad(101, 0, 100, -1)]},
             {"d": 10010, "bases": [quad(1001, 0, 1000, 10010), quad(0, 1, 100, 10010)]},
             {"d": 2, "bases": [quad(3, 0, 2, 2), quad(0, 3, 2 * 1, 2), quad(9, 0, 2, 2)]},
             # roots of unity whose order needs a long generator (6, 3, 12) and a large rational power next to sqrt(2)
             {"d": -3, "bases": [quad(1, 1, 2, -3)]}, {"d": -3, "bases": [quad(-1, 1, 2, -3)]},
             {"d": -3, "bases": [quad(1, 1, 2, -3), quad(-1, 0, 1, -3)]}, {"d": -3, "bases": [quad(1, 1, 2, -3), quad(1, -1, 2, -3)]},
             {"d": -3, "bases": [quad(0, 1, 1, -3), quad(3, 0, 1, -3)]}, {"d": -3, "bases": [quad(3, 1, 2, -3), quad(3, 0, 1, -3)]}]
    return fixed + out[:(60 if quick else 800)]


def solve_coeffs(basis, e):
    """unique rational solution c of sum c_j v_j = e for independent rows, or None"""
    import sympy
    M = sympy.Matrix(basis).T
    try:
        sol = M.solve_least_squares(sympy.Matrix(e)) if M.shape[0] != M.shape[1] else M.LUsolve(sympy.Matrix(e))
    except Exception:
        return None
    if M * sol != sympy.Matrix(e):
        return None
    return [F(int(x.p), int(x.q)) for x in sol]


def main(tier, seed):
    run = Run("C16", "model_checking", tier, seed)
    quick = run.tier == "quick"
    rng = random.Random(run.seed)
    lists = lists_rational(rng, quick) + lists_quadratic(rng, quick)
    for i, l in enumerate(lists):
        l["lid"] = f"L{i}"
    jobs = []
    chunk = 12
    for i in range(0, len(lists), chunk):
        part = lists[i:i + chunk]
        jobs.append({"kind": "explattice", "id": f"el{i}", "timeout": 60 * chunk + 60,
                     "lists": [{"lid": l["lid"], "bases": [b["txt"] for b in l["bases"]], "timeout": 60} for l in part]})
    results = pool.run_jobs(jobs, per_job_timeout=60 * chunk + 60)
    by_lid = {l["lid"]: l for l in lists}
    traces = []
    refused = 0
    for jid, r in results.items():
        if "lists" not in r:
            run.error(f"job {jid}: {r.get('stage')}")
            continue
        for o in r["lists"]:
            l = by_lid[o["lid"]]
            if "basis" not in o:
                refused += 1
                l["refused"] = o.get("exc")
                continue
            k = len(l["bases"])
            Bx = 6 if k <= 2 else ((5 if quick else 6) if k == 3 else (4 if quick else 5))
            basis = o["basis"]
            # coefficient box: large enough for every vector of the scanned box if the basis is right
            Cx = 1
            if basis:
                import sympy
                try:
                    M = sympy.Matrix(basis)
                    if M.rank() == len(basis):
                        G = (M * M.T).inv() * M      # c = G e for e in the row space
                        Cx = max(1, max(int(sum(abs(x) for x in G.row(r)) * Bx) + 1 for r in range(G.rows)))
                except Exception:
                    Cx = 2 * Bx
            Cx = min(Cx, 40 if len(basis) <= 2 else 14)
            l["basis"] = basis
            traces.append({"id": l["lid"], "d": E.enc_z(l["d"]), "B": Bx, "C": Cx, "basis": basis,
                           "bases": [{"a": E.enc_z(b["a"]), "b": E.enc_z(b["b"]), "den": E.enc_z(b["den"])} for b in l["bases"]]})
    verdicts = {}
    states = distinct = 0
    if traces:
        work = tempfile.mkdtemp(prefix="verif-el-")
        try:
            batch = os.path.join(work, "batch.json")
            outdir = os.path.join(work, "out")
            os.mkdir(outdir)
            json.dump({"traces": traces}, open(batch, "w"))
            env = dict(os.environ, BATCH_FILE=batch, OUT_DIR=outdir)
            cmd = ["java", "-XX:+UseParallelGC", "-Xmx8g", "-Xss64m", "-cp", tlc.TLC_CP, "tlc2.TLC", "-workers", "16",
                   "-metadir", os.path.join(work, "meta"), "-noGenerateSpecTE", "-config",
                   os.path.join(tlc.SPEC_DIR, "ExpLattice.cfg"), os.path.join(tlc.SPEC_DIR, "ExpLattice.tla")]
            p = subprocess.run(cmd, cwd=tlc.SPEC_DIR, env=env, capture_output=True, text=True, timeout=7000)
            m = tlc._STATS_RE.search(p.stdout)
            if p.returncode != 0 or not m:
                run.error(f"TLC ExpLattice: {p.stdout[-2000:]}")
            else:
                states, distinct = int(m.group(1)), int(m.group(2))
            for t in traces:
                vf = os.path.join(outdir, t["id"] + ".json")
                if os.path.exists(vf):
                    verdicts[t["id"]] = json.load(open(vf))
                elif m:
                    run.error(f"{t['id']}: no verdict")
        finally:
            shutil.rmtree(work, ignore_errors=True)
    nfail = 0
    nontrivial = 0
    for lid, v in verdicts.items():
        l = by_lid[lid]
        if v["relations"] > 1:
            nontrivial += 1
        if v["fails"]:
            nfail += 1
            txt = [b["txt"] for b in l["bases"]]
            run.violation({"bases:" + ",".join(txt)},
                          {"bases": txt, "field_d": l["d"], "polar_basis": l["basis"], "failures": v["fails"][:10],
                           "relations_in_box": v["relations"]})
    coverage = {"states": distinct, "transitions": states, "traces_validated_against_impl": len(verdicts),
                "samples": [{"bases": [b["txt"] for b in by_lid[lid]["bases"]], "polar_basis": by_lid[lid]["basis"],
                             "relations_in_box": v["relations"], "vectors_scanned": v["scanned"]}
                            for lid, v in list(verdicts.items())[:5]],
                "base_lists": len(lists), "lists_refused_or_timed_out": refused,
                "lists_with_nontrivial_relations": nontrivial, "lists_with_failures": nfail,
                "exponent_vectors_scanned": sum(v["scanned"] for v in verdicts.values()),
                "exhaustive": False}
    return run.finish(coverage, ["completeness is decided inside the box [-B,B]^k only (B = 6 for k <= 2, 5 or 6 for k = 3, 4 or 5 for k = 4)",
                                 "bases are rationals, Gaussian numbers, and elements of Q(sqrt 2), Q(sqrt 5); other algebraic numbers are not covered",
                                 "base lists beyond the fixed ones are a seeded sample of all lists of length <= 3 (rational lists: <= 4) over the stated menus"])
