"""C20: results are independent of process history, goal order and hash seed.

spec/Session.tla models the process-global state (unique-name counter, settings, class-level flag).  TLC
enumerates EVERY history of up to MaxLen actions over an alphabet of option toggles and analyses of programs
chosen to stress name generation, predicts the hidden state after each action and the histories in which a
fresh name collides with a user variable.  Every behaviour (quick: a seeded sample) is replayed in one real
process: the real counter / flag / settings must equal the model's after each action and every result
(closed forms, values, types, error class) must equal the fresh-process reference up to renaming of
generated symbols.  Goal permutations and PYTHONHASHSEED values are replayed likewise."""
import itertools
import json
import os
import random
import re
import shutil
import subprocess
import tempfile

from .. import pool, tlc
from ..report import Run

PROGRAMS = {
    "simul": {"goals": ["x", "y", "x*y"], "text": "x, y = 1, 2\nwhile true:\n    x, y = y, x + y {1/2} x\nend\n"},
    "usernames": {"goals": ["_t2", "z", "_t2*z"],
                  "text": "_t2 = 1\n_old1 = 0\nz = 0\nwhile true:\n    _old1 = Bernoulli(1/2)\n    if _old1 == 1:\n        _t2, z = z + 1, _t2\n        _old1 = 0\n    end\nend\n"},
    "owncond": {"goals": ["f", "x", "f*x"],
                "text": "f = 0\nx = 0\nwhile true:\n    f = Bernoulli(1/2)\n    if f == 0:\n        f = 1 {1/2} 0\n        x = x + 2\n    else:\n        x = x - 1\n        f = 0\n    end\nend\n"},
    "aliascat": {"goals": ["x", "y"],
                 "text": "a = 0\nb = 0\nx = 0\ny = 0\nwhile true:\n    a = Bernoulli(1/2)\n    b = DiscreteUniform(0, 2)\n    if a + b > 1:\n        x = x + 1 {1/3} x - 1 {1/3} x\n    end\n    if a + b > 1:\n        y = y + x\n    end\nend\n"},
    "usernames2": {"goals": ["_t5", "w"],
                   "text": "_t5 = 2\n_t4 = 1\nw = 0\nwhile true:\n    _t5, _t4 = _t4, _t5\n    w = w + _t5\nend\n"},
}
PROGRAMS.update({
    # the same variable name with different finite value sets, updated from its old value
    "finA": {"goals": ["x**3", "x**2*y", "y"],
             "text": "x = DiscreteUniform(0, 2)\ny = 0\nwhile true:\n    x = x {1/3} 2 - x\n    y = y + x\nend\n"},
    "finB": {"goals": ["x**3", "x**2*y", "y"],
             "text": "x = 0 {1/3} 2 {1/3} 4\ny = 0\nwhile true:\n    x = x {1/3} 4 - x\n    y = y + x\nend\n"},
    "trig": {"goals": ["y", "z"],
             "text": "x = 0\ny = 0\nz = 2\nwhile true:\n    x = DiscreteUniform(1, 2)\n    z = z + y\n    y = Cos(x)\nend\n"},
})
PROGRAMS.update({
    # user identifiers that look like generated ones with MULTI-digit numbers (reserved up to 13 and 11), and a draw
    # with a non-constant mean that makes the normalization ask for a fresh "_u" name
    "usernames3": {"goals": ["x", "_t10"],
                   "text": "x = 0\n_t10 = 1\nwhile true:\n    _t10, x = x, Normal(x + _u12, 1)\nend\n"},
})
PROGRAMS.update({
    # the same categorical assignment text with a probability that each program fixes differently (or leaves symbolic)
    "catA": {"goals": ["x", "x**2"], "text": "p = 1/4\nx = 0\nwhile true:\n    x = x + 1 {p} x + 3\nend\n"},
    "catB": {"goals": ["x", "x**2"], "text": "p = 2/3\nx = 0\nwhile true:\n    x = x + 1 {p} x + 3\nend\n"},
})
OPTIONS = ["tc", "c2a", "exact"]
OPTMAP = {"tc": "transform_categoricals", "c2a": "cond2arithm", "exact": "exact_func_moments"}


def opt_key(o):
    return "".join(x + "+" for x in OPTIONS if x in o)


GEN_RE = re.compile(r"_([a-z]+)(\d+)")


def canon(obj):
    """results up to renaming of generated symbols: _<prefix><digits> renumbered by first appearance"""
    s = json.dumps(obj, sort_keys=True)
    seen = {}

    def rep(m):
        k = m.group(0)
        if k not in seen:
            seen[k] = f"_{m.group(1)}#{len(seen)}"
        return seen[k]
    return GEN_RE.sub(rep, s)


def result_view(res, user_names):
    """the part of a result the property talks about: closed forms (as values), types of source variables, errors"""
    if res is None:
        return None
    v = {"exc": res.get("exc")}
    v["goals"] = {g: (go.get("values"), go.get("is_exact"), go.get("exc")) for g, go in (res.get("goals") or {}).items()}
    v["types"] = {k: t for k, t in (res.get("typedefs") or {}).items() if k in user_names}
    return v


def user_names_of(text):
    return set(re.findall(r"[A-Za-z_][A-Za-z_0-9]*", text)) - {"while", "true", "if", "else", "elif", "end", "Bernoulli",
                                                                "DiscreteUniform", "Categorical", "false", "types", "Finite"}


def main(tier, seed):
    run = Run("C20", "model_checking", tier, seed)
    quick = run.tier == "quick"
    rng = random.Random(run.seed)
    prog_ids = list(PROGRAMS)
    # ---- measure, in fresh processes, the fresh-name sequence of every program under every option set
    fresh_jobs = []
    optsets = [frozenset(c) for r in range(len(OPTIONS) + 1) for c in itertools.combinations(OPTIONS, r)]
    for pid in prog_ids:
        for o in optsets:
            acts = [{"a": "toggle", "o": x} for x in OPTIONS if x in o] + [{"a": "analyze", "p": pid}]
            fresh_jobs.append({"kind": "session", "id": f"fresh|{pid}|{opt_key(o)}", "actions": acts, "programs": PROGRAMS,
                               "timeout": 200})
    fres = pool.run_jobs(fresh_jobs, per_job_timeout=200, fresh_each=True)
    fresh, reference, normalizes = {}, {}, {}
    for pid in prog_ids:
        fresh[pid] = {}
        for o in optsets:
            r = fres.get(f"fresh|{pid}|{opt_key(o)}", {})
            if "actions" not in r:
                run.error(f"fresh reference failed for {pid} {opt_key(o)}: {r.get('stage')}")
                fresh[pid][opt_key(o)] = []
                normalizes.setdefault(pid, {})[opt_key(o)] = False
                continue
            last = r["actions"][-1]
            fresh[pid][opt_key(o)] = last["fresh"]
            normalizes.setdefault(pid, {})[opt_key(o)] = "exc" not in last["result"]
            reference[(pid, opt_key(o))] = last["result"]
    names = {pid: user_names_of(PROGRAMS[pid]["text"]) for pid in prog_ids}
    usergen = {pid: [{"p": m.group(1), "k": int(m.group(2))} for n in names[pid] for m in [GEN_RE.fullmatch(n)] if m]
               for pid in prog_ids}
    # ---- TLC: all histories
    maxlen = 3 if quick else 4
    work = tempfile.mkdtemp(prefix="verif-session-")
    hists = []
    states = distinct = 0
    try:
        batch = os.path.join(work, "batch.json")
        json.dump({"options": OPTIONS, "maxLen": maxlen, "reserve": True,
                   "programs": [{"id": pid, "userGen": usergen[pid], "fresh": fresh[pid], "normalizes": normalizes[pid]} for pid in prog_ids]},
                  open(batch, "w"))
        cfg = os.path.join(work, "s.cfg")
        open(cfg, "w").write("SPECIFICATION Spec\nINVARIANT CounterOK\nINVARIANT NoCollision\nPROPERTY FlagFollows\nCONSTRAINT Emit\nCHECK_DEADLOCK FALSE\n")
        cmd = ["java", "-XX:+UseParallelGC", "-Xmx6g", "-cp", tlc.TLC_CP, "tlc2.TLC", "-workers", "1", "-metadir",
               os.path.join(work, "meta"), "-noGenerateSpecTE", "-config", cfg, os.path.join(tlc.SPEC_DIR, "Session.tla")]
        p = subprocess.run(cmd, cwd=tlc.SPEC_DIR, env=dict(os.environ, BATCH_FILE=batch), capture_output=True, text=True,
                           timeout=3000)
        m = tlc._STATS_RE.search(p.stdout)
        if p.returncode != 0 or not m:
            run.error("TLC Session: " + p.stdout[-2000:])
        else:
            states, distinct = int(m.group(1)), int(m.group(2))
        for line in p.stdout.splitlines():
            if line.startswith('"@@HIST '):
                hists.append(json.loads(json.loads(line)[len("@@HIST "):]))
    finally:
        shutil.rmtree(work, ignore_errors=True)
    total_hists = len(hists)
    predicted = [h for h in hists if any(a["collided"] for a in h)]
    with_analysis = [h for h in hists if sum(1 for a in h if a["a"] == "analyze") >= 2 and not any(a["collided"] for a in h)]
    rng.shuffle(with_analysis)
    # cover every ordered pair of programs analysed one after the other (a later analysis may be influenced by
    # what an earlier one left behind), then fill up with a seeded sample
    need = {(a, b) for a in prog_ids for b in prog_ids}
    cover, rest = [], []
    for h in with_analysis:
        seq = [x["p"] for x in h if x["a"] == "analyze"]
        pairs = {(seq[k], seq[k + 1]) for k in range(len(seq) - 1)} & need
        if pairs and all(x["a"] == "analyze" for x in h):
            cover.append(h)
            need -= pairs
        else:
            rest.append(h)
    # directed: one option switched on, then two analyses (ordered pairs among the programs with categorical assignments)
    catlike = [p for p in ("catA", "catB", "simul", "owncond") if p in PROGRAMS]
    directed = [h for h in hists if len(h) == 3 and h[0]["a"] == "toggle" and h[1]["a"] == "analyze" and h[2]["a"] == "analyze"
                and h[1]["p"] in catlike and h[2]["p"] in catlike and h[1]["p"] != h[2]["p"] and not any(a["collided"] for a in h)]
    directed = [h for h in directed if {h[1]["p"], h[2]["p"]} & {"catA", "catB"}]
    sample = cover + directed + [h for h in rest if h not in directed][: (40 if quick else 600)] + predicted[: (25 if quick else 200)]
    # ---- replay each behaviour in one real process
    jobs = []
    for i, h in enumerate(sample):
        acts = [{"a": "toggle", "o": a["o"]} if a["a"] == "toggle" else {"a": "analyze", "p": a["p"]} for a in h]
        jobs.append({"kind": "session", "id": f"h{i}", "actions": acts, "programs": PROGRAMS, "timeout": 400})
    res = pool.run_jobs(jobs, per_job_timeout=400, fresh_each=True)
    replayed = state_mismatch = result_mismatch = confirmed_predictions = 0
    for i, h in enumerate(sample):
        r = res.get(f"h{i}", {})
        if "actions" not in r:
            run.error(f"history {i} failed: {r.get('stage')}")
            continue
        replayed += 1
        opt = set()
        for a, real in zip(h, r["actions"]):
            if a["a"] == "toggle":
                opt ^= {a["o"]}
            model_settings = {k: (k in opt) for k in OPTIONS}
            if real["counter"] != a["counter"] or real["settings"] != model_settings or \
                    (a["a"] == "analyze" and normalizes[a["p"]][opt_key(opt)] and real["flag"] != ("exact" in opt)):
                state_mismatch += 1
                run.violation({"session-state"}, {"clause": "hidden state differs from the Session model", "history": h,
                                                  "at": a, "real": {k: real[k] for k in ("counter", "flag", "settings")}})
                break
            if a["a"] == "analyze":
                ref = reference.get((a["p"], opt_key(opt)))
                got = real["result"]
                if canon(result_view(got, names[a["p"]])) != canon(result_view(ref, names[a["p"]])):
                    if a["collided"]:
                        confirmed_predictions += 1
                    result_mismatch += 1
                    keys = {"collision:" + a["p"]} if a["collided"] else {"history:" + a["p"]}
                    run.violation(keys, {"clause": "result depends on the history", "history": [
                        (x["a"], x.get("p", x.get("o"))) for x in h], "program": PROGRAMS[a["p"]]["text"],
                        "predicted_name_collision": a["collided"], "fresh_reference": result_view(ref, names[a["p"]]),
                        "in_history": result_view(got, names[a["p"]])})
                    break
    # ---- goal order and hash seed
    order_jobs = []
    for pid in prog_ids:
        goals = PROGRAMS[pid]["goals"]
        for pi, perm in enumerate(itertools.permutations(goals)):
            if pi >= (3 if quick else 6):
                break
            order_jobs.append(({"kind": "session", "id": f"order|{pid}|{pi}", "programs": PROGRAMS, "timeout": 200,
                                "actions": [{"a": "analyze", "p": pid, "goals": list(perm)},
                                            {"a": "analyze", "p": pid, "goals": list(perm)}]}, None))
        for hs in (["1", "2", "3"] if quick else ["1", "2", "3", "4", "5", "random"]):
            order_jobs.append(({"kind": "session", "id": f"seed|{pid}|{hs}", "programs": PROGRAMS, "timeout": 200,
                                "actions": [{"a": "analyze", "p": pid}]}, hs))
    order_mismatch = 0
    for hs in sorted({h for _, h in order_jobs}, key=str):
        js = [j for j, h in order_jobs if h == hs]
        rr = pool.run_jobs(js, per_job_timeout=200, hashseed=hs, fresh_each=True)
        for j in js:
            r = rr.get(j["id"], {})
            if "actions" not in r:
                run.error(f"{j['id']} failed: {r.get('stage')}")
                continue
            pid = j["id"].split("|")[1]
            ref = reference.get((pid, ""))
            for real in r["actions"]:
                if canon(result_view(real["result"], names[pid])) != canon(result_view(ref, names[pid])):
                    order_mismatch += 1
                    run.violation({j["id"].split("|")[0] + ":" + pid},
                                  {"clause": "result depends on goal order / repetition / hash seed", "job": j["id"],
                                   "program": PROGRAMS[pid]["text"], "reference": result_view(ref, names[pid]),
                                   "got": result_view(real["result"], names[pid])})
                    break
    # ---- several files in one command line invocation (one action object for all of them): what is printed for a file
    # must not depend on the files handled before it
    GA = "x = 0\nstop = 0\nwhile stop == 0:\n    x = x + 1\n    stop = Bernoulli(1/2)\nend\n"
    GB = "x = 0\nstop = 0\nwhile stop == 0:\n    x = x + 2 {1/2} x + 6\n    stop = Bernoulli(1/4)\nend\n"
    WA = "x = 1\ny = 1\nwhile true:\n    x = 2*x\n    y = 4*y\nend\n"
    WB = "x = 3\ny = 1\nwhile true:\n    x = 4*x\n    y = 2*y\nend\n"
    cli_cases = [("after_loop", [GA, GB], ["--goals", "E(x)", "k2(x)", "c2(x)", "--after_loop"]),
                 ("moments", [GA, GB], ["--goals", "E(x)", "E(x**2)", "k3(x)"]),
                 ("invariants", [WA, WB], ["--goals", "x", "y", "--invariants"]),
                 ("central_cumulant", [GB, GA], ["--goals", "c4(x)", "k4(x)", "c2(x)"])]
    cjobs = []
    for name, files, argv in cli_cases:
        for order in (files, list(reversed(files))):
            cjobs.append({"kind": "cli_files", "id": f"cli|{name}|{'ab' if order is files else 'ba'}", "files": order, "argv": argv, "timeout": 300})
        for i, f in enumerate(files):
            cjobs.append({"kind": "cli_files", "id": f"cli|{name}|single{i}", "files": [f], "argv": argv, "timeout": 300})
    cres = pool.run_jobs(cjobs, per_job_timeout=300, fresh_each=True)

    def norm_out(o):
        txt = "\n".join(l for l in o.get("out", "").splitlines() if not l.startswith("Elapsed"))
        return re.sub(r"/tmp/\S+\.prob", "<file>", txt), o.get("exc")
    cli_compared = cli_bad = 0
    for name, files, argv in cli_cases:
        singles = [cres.get(f"cli|{name}|single{i}", {}).get("outputs", [None])[0] for i in range(len(files))]
        for tag, order in (("ab", [0, 1]), ("ba", [1, 0])):
            outs = cres.get(f"cli|{name}|{tag}", {}).get("outputs")
            if not outs or any(s_ is None for s_ in singles):
                continue
            for pos, fi in enumerate(order):
                cli_compared += 1
                if pos < len(outs) and norm_out(outs[pos]) != norm_out(singles[fi]):
                    cli_bad += 1
                    run.violation({f"cli-files:{name}"}, {"clause": "output for a file depends on the files handled before it in the same invocation",
                                                          "arguments": argv, "position": pos, "alone": norm_out(singles[fi])[0][-600:],
                                                          "in_sequence": norm_out(outs[pos])[0][-600:]})
    coverage = {"cli_multi_file_outputs_compared": cli_compared, "cli_multi_file_mismatches": cli_bad,
                "states": distinct, "transitions": states, "traces_validated_against_impl": replayed,
                "samples": [[(a["a"], a.get("p", a.get("o")), a["counter"]) for a in h] for h in sample[:4]],
                "histories_enumerated_by_tlc": total_hists, "max_history_length": maxlen,
                "histories_with_predicted_name_collision": len(predicted),
                "histories_replayed": replayed, "hidden_state_mismatches": state_mismatch,
                "result_mismatches": result_mismatch, "predicted_collisions_confirmed": confirmed_predictions,
                "goal_order_and_hashseed_runs": len(order_jobs), "goal_order_and_hashseed_mismatches": order_mismatch,
                "exhaustive": not quick}
    return run.finish(coverage, ["the alphabet is 5 programs x 3 option toggles; fresh-name sequences per (program, options) are measured in fresh processes",
                                 "results are compared as values at n = 0..4, exactness flags, types of user variables and error classes, up to renaming of generated symbols"])
