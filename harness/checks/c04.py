"""C04: solved closed forms reproduce A^n v for all n.

spec -> code: spec/LinRecFamily.tla lets TLC enumerate complete families of small systems (all k x k integer
matrices over a range, all initial vectors over a range) together with their exact behaviours; each is
replayed into Polar's RecurrenceSolver (acyclic / forced cyclic, exact and numeric root modes).
code -> spec: the closed forms Polar returns, evaluated at n = 0..N, are validated step by step against
the machine x' = A x + b of spec/LinRec.tla (exact rational arithmetic), together with the fixed families
(nilpotent chains, nilpotent + invertible blocks, Jordan blocks, rotations, irrational roots, inhomogeneous
parts, parametric entries).  N = k + (order of the closed form) + margin, which by the order-bound argument
(DESIGN.md section 6) decides equality for all n for exact closed forms."""
import json
import os
import random
import re
import shutil
import subprocess
import tempfile
import time
from fractions import Fraction as F

from .. import encode as E, pool, tlc
from ..report import Run

SPEC_DIR = tlc.SPEC_DIR


def tlc_family(kdim, hi, vhi, steps, bhi=0):
    """every system of the family with its exact behaviour, enumerated by TLC"""
    work = tempfile.mkdtemp(prefix="verif-fam-")
    try:
        cfg = os.path.join(work, "fam.cfg")
        with open(cfg, "w") as f:
            f.write(f"CONSTANTS Kdim = {kdim}  Hi = {hi}  VHi = {vhi}  Steps = {steps}  BHi = {bhi}\n"
                    "SPECIFICATION Spec\nCONSTRAINT Emit\nCHECK_DEADLOCK FALSE\n")
        cmd = ["java", "-XX:+UseParallelGC", "-Xmx6g", "-cp", tlc.TLC_CP, "tlc2.TLC", "-workers", "1",
               "-metadir", os.path.join(work, "meta"), "-noGenerateSpecTE", "-config", cfg,
               os.path.join(SPEC_DIR, "LinRecFamily.tla")]
        p = subprocess.run(cmd, cwd=SPEC_DIR, capture_output=True, text=True, timeout=3000)
        m = tlc._STATS_RE.search(p.stdout)
        if p.returncode != 0 or not m:
            raise tlc.TlcError(p.stdout[-2000:])
        systems = []
        for line in p.stdout.splitlines():
            if line.startswith('"@@FAM '):
                systems.append(json.loads(json.loads(line)[len("@@FAM "):]))
        return systems, int(m.group(1)), int(m.group(2))
    finally:
        shutil.rmtree(work, ignore_errors=True)


def fixed_families():
    S = []

    def add(name, A, v, b=None, point=None):
        S.append({"name": name, "A": [[str(a) for a in r] for r in A], "v": [str(x) for x in v],
                  "b": [str(x) for x in (b or [0] * len(v))], "point": point or {}})
    for k in (2, 3, 4):
        A = [[1 if j == i + 1 else 0 for j in range(k)] for i in range(k)]
        add(f"nilpotent_chain_{k}", A, list(range(1, k + 1)))
    add("nilpotent2_plus_2", [[0, 1, 0], [0, 0, 0], [1, 0, 2]], [1, 2, 1])
    add("nilpotent2_plus_rot", [[0, 1, 0, 0], [0, 0, 0, 0], [0, 0, 0, -1], [1, 0, 1, 0]], [1, 2, 1, 0])
    add("nilpotent3_plus_half", [[0, 1, 0, 0], [0, 0, 1, 0], [0, 0, 0, 0], [1, 1, 1, "1/2"]], [1, 2, 3, 4])
    add("double_zero_plus_neg1", [[1, -1, 0], [1, -1, 0], [1, 0, -1]], [2, 0, 1])
    add("jordan_1", [[1, 1, 0], [0, 1, 1], [0, 0, 1]], [0, 0, 1])
    add("jordan_2", [[2, 1], [0, 2]], [1, 1])
    add("jordan_2_inhom", [[2, 1], [0, 2]], [1, 1], b=[1, 3])
    add("rotation", [[0, -1], [1, 0]], [1, 0])
    add("rotation_scaled", [[1, -1], [1, 1]], [1, 2])
    add("fibonacci", [[0, 1], [1, 1]], [0, 1])
    add("pell", [[0, 1], [1, 2]], [0, 1])
    add("tribonacci", [[0, 1, 0], [0, 0, 1], [1, 1, 1]], [0, 0, 1])
    add("inhom_eig1", [[1, 0], [1, 1]], [0, 0], b=[1, 0])
    add("inhom_contract", [["1/2", 0], [1, "1/3"]], [1, 1], b=[1, 2])
    add("singular_rank1", [[1, 1], [1, 1]], [1, 0])
    add("singular_rank1_neg", [[1, -1], [1, -1]], [2, 0])
    add("zero_matrix", [[0, 0], [0, 0]], [3, 4], b=[1, 0])
    add("identity", [[1, 0], [0, 1]], [3, 4])
    add("neg_eig", [[-1, 0], [1, -2]], [1, 1])
    # irreducible cubic factor next to a rational / purely imaginary root (exactness flag with numeric croots)
    add("cubic_plus_5", [[0, 1, 0, 0], [0, 0, 1, 0], [-1, 3, 0, 0], [0, 0, 0, 5]], [1, 0, 1, 1])
    add("cubic_plus_rot2", [[0, 1, 0, 0, 0], [0, 0, 1, 0, 0], [-1, 3, 0, 0, 0], [0, 0, 0, 0, -2], [0, 0, 0, 2, 0]], [1, 0, 1, 1, 0])
    add("triangular_mixed", [[2, 0, 0], [1, 3, 0], [1, 1, "1/2"]], [1, 1, 1], b=[0, 1, 0])
    for p in ("0", "1", "1/2", "1/3"):
        add(f"param_walk_p={p}", [["p", 0], [1, 1]], ["1", "0"], b=["1-p", 0], point={"p": p})
        add(f"param_geo_p={p}", [["p", "1-p"], ["1-p", "p"]], ["1", "0"], point={"p": p})
        add(f"param_nilp_p={p}", [[0, "p", 0], [0, 0, 1], [0, 0, "p"]], ["1", "1", "1"], point={"p": p})
    return S


MODES_EXACT = [{"force_cyclic": False}, {"force_cyclic": True}]
MODES_NUMERIC = [{"force_cyclic": True, "numeric_roots": True, "numeric_eps": 1e-10},
                 {"force_cyclic": True, "numeric_croots": True},
                 {"force_cyclic": True, "numeric_roots": True, "numeric_eps": 1e-4}]


def inst(s, point):
    import sympy
    sub = {sympy.Symbol(k): sympy.Rational(v) for k, v in point.items()}
    x = sympy.sympify(s).xreplace(sub)
    return F(int(x.p), int(x.q))


def mode_name(m):
    return ",".join(f"{k}={v}" for k, v in sorted(m.items())) or "default"


def tol_for(mode, truth, n):
    """what a rounded result may deviate by: generous, grows with n and with the magnitude"""
    eps = mode.get("numeric_eps", 1e-10) if mode.get("numeric_roots") else 1e-12
    return (abs(truth) + 1) * F(eps).limit_denominator(10 ** 15) * 10 ** 4 * (n + 1) * (n + 1)


def main(tier, seed):
    run = Run("C04", "model_checking", tier, seed)
    quick = run.tier == "quick"
    rng = random.Random(run.seed)
    N = 9
    # ---- spec -> code: families enumerated by TLC
    fam_states = fam_distinct = 0
    fam2, a, b = tlc_family(2, 2, 1, N)
    fam_states += a
    fam_distinct += b
    fam2i, a, b = tlc_family(2, 1, 1, N, bhi=1)
    fam_states += a
    fam_distinct += b
    fam3, a, b = tlc_family(3, 1, 0, N) if not quick else ([], 0, 0)
    fam_states += a
    fam_distinct += b
    total_family = len(fam2) + len(fam2i) + len(fam3)
    systems = []

    def from_fam(f, name):
        return {"name": name, "A": [[str(x) for x in r] for r in f["A"]], "b": [str(x) for x in f["b"]],
                "v": [str(x) for x in f["v"]], "point": {}, "xs": f["xs"]}
    # an all-zero initial vector carries no information; keep one per matrix at most
    def interesting(f):
        return any(f["v"])
    pool2 = [f for f in fam2 if interesting(f)]
    pool2i = [f for f in fam2i if interesting(f) or any(f["b"])]
    pool3 = [f for f in fam3 if interesting(f)]
    if quick:
        rng.shuffle(pool2)
        rng.shuffle(pool2i)
        pool2, pool2i = pool2[:220], pool2i[:80]
    else:
        rng.shuffle(pool2)
        rng.shuffle(pool2i)
        rng.shuffle(pool3)
        pool2, pool2i, pool3 = pool2[:2000], pool2i[:800], pool3[:1500]
    for i, f in enumerate(pool2):
        systems.append(from_fam(f, f"fam2-{i}"))
    for i, f in enumerate(pool2i):
        systems.append(from_fam(f, f"fam2i-{i}"))
    for i, f in enumerate(pool3):
        systems.append(from_fam(f, f"fam3-{i}"))
    fixed = fixed_families()
    systems += fixed
    for i, s in enumerate(systems):
        s["sid"] = f"s{i}"

    # ---- run Polar
    jobs = []
    chunk = 10
    for i in range(0, len(systems), chunk):
        part = systems[i:i + chunk]
        jobs.append({"kind": "linrec", "id": f"lr{i}", "N": N, "modes": MODES_EXACT, "timeout": 900,
                     "systems": [{k: s[k] for k in ("sid", "A", "b", "v", "point")} for s in part]})
    numeric_sys = fixed + ([] if quick else systems[:300])
    for i in range(0, len(numeric_sys), chunk):
        part = numeric_sys[i:i + chunk]
        jobs.append({"kind": "linrec", "id": f"lrn{i}", "N": N, "modes": MODES_NUMERIC, "timeout": 900,
                     "systems": [{k: s[k] for k in ("sid", "A", "b", "v", "point")} for s in part]})
    results = pool.run_jobs(jobs, per_job_timeout=900)
    by_sid = {s["sid"]: s for s in systems}

    # ---- code -> spec: traces for LinRec.tla
    traces = []
    tmeta = {}
    stats_n = {"solver_exceptions": 0, "values_exact": 0, "values_enclosure": 0, "values_float": 0,
               "undef": 0, "rounded_flag": 0, "exact_flag_violations": 0}
    replay_mismatch = 0
    for jid, r in results.items():
        if "systems" not in r:
            run.error(f"linrec job {jid}: {r.get('stage')} {r.get('msg', '')[:200]}")
            continue
        for so in r["systems"]:
            s = by_sid[so["sid"]]
            A = [[inst(a, s["point"]) for a in row] for row in s["A"]]
            bb = [inst(a, s["point"]) for a in s["b"]]
            vv = [inst(a, s["point"]) for a in s["v"]]
            for mi, mo in enumerate(so["modes"]):
                if "comps" not in mo:
                    stats_n["solver_exceptions"] += 1
                    continue
                steps = [[] for _ in range(N + 1)]
                exact_flag = mo["is_exact"]
                if not exact_flag:
                    stats_n["rounded_flag"] += 1
                for ci, comp in enumerate(mo["comps"]):
                    for n, val in enumerate(comp["values"]):
                        base = {"i": ci + 1}
                        if "q" in val and exact_flag:
                            stats_n["values_exact"] += 1
                            steps[n].append(dict(base, val=F(val["q"]), exact=exact_flag))
                        elif "q" in val:
                            # rounded result that happens to be a rational number: judged with the tolerance
                            stats_n["values_float"] += 1
                            steps[n].append(dict(base, approx=F(val["q"]), eps=None, exact=exact_flag))
                        elif "float" in val and exact_flag:
                            # a result flagged exact must be exactly equal: a floating point value is taken literally
                            stats_n["values_exact"] += 1
                            steps[n].append(dict(base, val=F(val["float"]), exact=True))
                        elif "approx" in val or "float" in val:
                            x = F(val.get("approx", val.get("float")))
                            if exact_flag and "approx" in val:
                                eps = max(abs(x), 1) * F(1, 10 ** 40)
                                stats_n["values_enclosure"] += 1
                            else:
                                # rounded result: tolerance needs the truth; computed below from the trace's own A
                                eps = None
                                stats_n["values_float"] += 1
                            steps[n].append(dict(base, approx=x, eps=eps, exact=exact_flag))
                        else:
                            stats_n["undef"] += 1
                            if "free" in val:
                                run.violation({s["name"]}, {"system": s, "mode": mo["mode"], "clause": "free-symbol",
                                                            "n": n, "value": val})
                tid = f"{so['sid']}-m{mi}-{jid}"
                traces.append({"id": tid, "A": A, "b": bb, "v": vv, "N": N, "steps": steps})
                tmeta[tid] = (s, mo)

    # tolerance for rounded values needs magnitudes: iterate exactly here only to size the tolerance
    def iterate(A, b, v, N):
        xs = [v]
        for _ in range(N):
            x = xs[-1]
            xs.append([sum(A[i][j] * x[j] for j in range(len(x))) + b[i] for i in range(len(x))])
        return xs

    enc_by_D = {}
    for tr in traces:
        s, mo = tmeta[tr["id"]]
        nums = [x for row in tr["A"] for x in row] + tr["b"] + tr["v"]
        D = E.choose_D(nums)
        xs = None
        steps = []
        for n, cls in enumerate(tr["steps"]):
            out = []
            for cl in cls:
                if "val" in cl:
                    out.append(dict(i=cl["i"], **E.frac_claim(cl["val"])))
                else:
                    eps = cl["eps"]
                    if eps is None:
                        if xs is None:
                            xs = iterate(tr["A"], tr["b"], tr["v"], tr["N"])
                        eps = tol_for(mo["mode"], xs[n][cl["i"] - 1], n)
                    out.append({"i": cl["i"], "lo": E.frac_claim(cl["approx"] - eps), "hi": E.frac_claim(cl["approx"] + eps)})
            steps.append(out)
        enc = {"id": tr["id"], "N": tr["N"], "A": [[E.enc_r(x, D) for x in row] for row in tr["A"]],
               "b": [E.enc_r(x, D) for x in tr["b"]], "v": [E.enc_r(x, D) for x in tr["v"]], "steps": steps}
        enc_by_D.setdefault(D, []).append(enc)

    verdicts = {}
    tstates = tdistinct = 0
    for D, encs in sorted(enc_by_D.items()):
        work = tempfile.mkdtemp(prefix="verif-linrec-")
        try:
            batch = os.path.join(work, "batch.json")
            outdir = os.path.join(work, "out")
            os.mkdir(outdir)
            json.dump({"D": D, "traces": encs}, open(batch, "w"))
            env = dict(os.environ, BATCH_FILE=batch, OUT_DIR=outdir)
            cmd = ["java", "-XX:+UseParallelGC", "-Xmx8g", "-Xss64m", "-cp", tlc.TLC_CP, "tlc2.TLC", "-workers", "16",
                   "-metadir", os.path.join(work, "meta"), "-noGenerateSpecTE", "-config",
                   os.path.join(SPEC_DIR, "LinRec.cfg"), os.path.join(SPEC_DIR, "LinRec.tla")]
            p = subprocess.run(cmd, cwd=SPEC_DIR, env=env, capture_output=True, text=True, timeout=3000)
            m = tlc._STATS_RE.search(p.stdout)
            if p.returncode != 0 or not m:
                run.error(f"TLC LinRec D={D}: {p.stdout[-1500:]}")
                continue
            tstates += int(m.group(1))
            tdistinct += int(m.group(2))
            for e in encs:
                vf = os.path.join(outdir, e["id"] + ".json")
                if os.path.exists(vf):
                    verdicts[e["id"]] = dict(json.load(open(vf)), D=D)
                else:
                    run.error(f"{e['id']}: no verdict")
        finally:
            shutil.rmtree(work, ignore_errors=True)

    # spec -> code replay comparison: TLC's own behaviours of the family vs Polar's exact values
    for tr in traces:
        s, mo = tmeta[tr["id"]]
        if "xs" not in s:
            continue
        for n, cls in enumerate(tr["steps"]):
            for cl in cls:
                if "val" in cl and cl["val"] != s["xs"][n][cl["i"] - 1]:
                    replay_mismatch += 1

    nfail = 0
    for tid, v in verdicts.items():
        if not v["fails"]:
            continue
        nfail += 1
        s, mo = tmeta[tid]
        f0 = v["fails"][0]
        comp = mo["comps"][f0["i"] - 1]
        fam = s["name"].split("-")[0]
        run.violation({s["name"], f"{fam}:{mode_name(mo['mode'])}"},
                      {"system": {k: s[k] for k in ("name", "A", "b", "v", "point")}, "mode": mo["mode"],
                       "solver": mo.get("solver"), "is_exact_flag": mo["is_exact"], "component": f0["i"], "n": f0["n"],
                       "polar_value": comp["values"][f0["n"]], "truth": str(E.dec_r(f0["got"], v["D"])),
                       "closed_form": comp["closed_form"],
                       "all_failing": sorted({(f["i"], f["n"]) for f in v["fails"]})[:30]})
    if replay_mismatch and not nfail:
        run.error(f"replay comparison found {replay_mismatch} mismatches that trace validation did not")

    coverage = {"states": tdistinct + fam_distinct, "transitions": tstates + fam_states,
                "traces_validated_against_impl": len(verdicts),
                "samples": [{"system": {k: tmeta[t][0][k] for k in ("name", "A", "b", "v")}, "mode": tmeta[t][1]["mode"],
                             "closed_forms": [c["closed_form"] for c in tmeta[t][1]["comps"]]}
                            for t in list(verdicts)[:3]],
                "family_systems_enumerated_by_tlc": total_family,
                "family_systems_replayed_into_polar": len(systems) - len(fixed),
                "fixed_family_systems": len(fixed), "solver_modes_exact": MODES_EXACT, "solver_modes_numeric": MODES_NUMERIC,
                "N": N, "traces_with_failures": nfail, "replay_mismatches": replay_mismatch,
                "exhaustive": False, **stats_n}
    return run.finish(coverage, [
        "order bound: an exact closed form for a k-dimensional system agreeing with A^n v at n = 0..N with N >= 2k+1+(number of listed special cases) agrees for all n",
        "rounded (numeric root) results are allowed a deviation of (|truth|+1) * eps * 1e4 * (n+1)^2",
        "sympy evaluates the closed forms; irrational expressions that do not simplify to a rational are compared through a 1e-40 relative enclosure of their 60-digit evaluation",
        "quick tier replays a seeded sample of the TLC-enumerated families, thorough tier a seeded sample of 2000 + 800 of the 2x2 systems and 1500 of the 3x3 ones",
    ])
