"""C11: central moments, cumulants and tail bounds match the exact law.

Central moments are computed by the spec from the definition sum w (M(s) - E M)^k, cumulants by the
set-partition formula over restricted growth strings -- both independent of Polar's conversion recursions --
and bound at every n to raw_moments_to_centrals / raw_moments_to_cumulants of Polar's closed forms.
Tail bounds: see harness tail-bound builder (Markov bounds E(M^k)/a^k and the second-moment lower bound must
be valid for the exact law whenever the stated non-negativity assumption holds on the support)."""
from fractions import Fraction as F

from .. import absyn, campaign as C
from ..driver import analysis_check, standard_items


def main(tier, seed):
    quick = tier == "quick"
    items = [it for it in C.corpus_files()][:10] + C.generated(seed, 12 if quick else 200, ngoals=2)
    for it in items:
        gl = it.get("goals") or []
        it["stat_goals"] = [g for g in gl if "*" not in g.replace("**", "")][:2] or gl[:1]
        it["K"] = 4
    return analysis_check("C11", tier, seed, items=items, want=["central", "cumulant"], builders=[C.b_source, C.b_stats],
                          N=5 if quick else 8, timeout=90 if quick else 200,
                          assumptions=["orders k <= 4; Gram-Charlier / Cornish-Fisher expansions are not covered by this check yet"])


def replay(path):
    from ..driver import replay_analysis
    return replay_analysis("C11", path, want=["central", "cumulant"], builders=[C.b_source, C.b_stats], N=5)
