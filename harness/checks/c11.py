"""C11: central moments, cumulants and tail bounds match the exact law.

Central moments are computed by the spec from the definition sum w (M(s) - E M)^k, cumulants by the
set-partition formula over restricted growth strings -- both independent of Polar's conversion recursions --
and bound at every n to raw_moments_to_centrals / raw_moments_to_cumulants of Polar's closed forms.
Tail bounds: see harness tail-bound builder (Markov bounds E(M^k)/a^k and the second-moment lower bound must
be valid for the exact law whenever the stated non-negativity assumption holds on the support)."""
from fractions import Fraction as F

from .. import absyn, campaign as C
from ..driver import analysis_check, standard_items


def expansions_part(ctx):
    """Gram-Charlier and Cornish-Fisher: Polar's expansions for a list of rational cumulant vectors (computed one
    after the other in one process) judged by spec/Dists.tla: the Gram-Charlier density must integrate to 1 and
    reproduce the first K raw moments (normal moments in exact arithmetic); the Cornish-Fisher polynomial must be
    the standard expansion, coefficient by coefficient."""
    import json
    import os
    import shutil
    import subprocess
    import tempfile
    from .. import encode as E, pool, tlc
    from .c08 import q
    run = ctx["run"]
    rng = __import__("random").Random(run.seed)
    vectors = [["1", "4", "2", "3"], ["0", "1", "1/2", "1", "1/3"], ["2", "9/4", "-1", "2", "1"], ["0", "1", "0", "0"],
               ["-1", "1/4", "1/8", "1/16", "1/32"], ["3", "16", "-4", "8"], ["1/2", "1/9", "1/27", "1/81", "0"], ["0", "4", "1"]]
    # orders 6 and 7 (Gram-Charlier only: the transcribed Cornish-Fisher expansion stops at five cumulants), skewed
    vectors += [["1/2", "4", "3", "2", "1", "5"], ["0", "1", "1", "0", "0", "1", "2"], ["1", "9/4", "-2", "1", "1/2", "-1"],
                ["0", "1", "1/2", "1/3", "1/4", "1/5", "1/6"]]
    for _ in range(4 if run.tier == "quick" else 40):
        k = rng.choice([3, 4, 5, 6, 7])
        sig = rng.choice([F(1), F(2), F(1, 2), F(3, 2), F(3)])
        vectors.append([str(F(rng.randint(-3, 3), rng.choice([1, 2]))), str(sig * sig)] +
                       [str(F(rng.randint(-4, 4), rng.choice([1, 2, 3]))) for _ in range(k - 2)])
    items = [{"vid": f"v{i}", "cumulants": v} for i, v in enumerate(vectors)]
    res = pool.run_jobs([{"kind": "expansions", "id": "exp", "vectors": items, "timeout": 900}], per_job_timeout=900)["exp"]
    if "vectors" not in res:
        run.error(f"expansions job failed: {res}")
        return {}
    traces = []
    exc = 0
    for it, o in zip(items, res["vectors"]):
        cum = [F(c) for c in it["cumulants"]]
        sigma = None
        for cand in (F(1), F(2), F(1, 2), F(3, 2), F(3), F(4), F(1, 3), F(1, 4)):
            if cand * cand == cum[1]:
                sigma = cand
        if "gc" in o:
            traces.append({"id": it["vid"] + "-gc", "gc": {"cumulants": [q(c) for c in cum],
                                                           "poly": [{"c": q(c), "e": e} for c, e in o["gc"]]}})
        else:
            exc += 1
        if "cf" in o and sigma is not None and len(cum) <= 5:
            traces.append({"id": it["vid"] + "-cf", "cf": {"cumulants": [q(c) for c in cum], "sigma": q(sigma),
                                                           "poly": [{"c": q(c), "e": e} for c, e in o["cf"]]}})
        elif "cf" not in o and len(cum) <= 5:
            exc += 1
    verdicts = {}
    states = distinct = 0
    work = tempfile.mkdtemp(prefix="verif-exp-")
    try:
        batch = os.path.join(work, "batch.json")
        outdir = os.path.join(work, "out")
        os.mkdir(outdir)
        json.dump({"traces": traces}, open(batch, "w"))
        cfg = os.path.join(work, "d.cfg")
        open(cfg, "w").write("SPECIFICATION Spec\nINVARIANT TypeOK\nCHECK_DEADLOCK FALSE\n")
        cmd = ["java", "-XX:+UseParallelGC", "-Xmx6g", "-Xss64m", "-cp", tlc.TLC_CP, "tlc2.TLC", "-workers", "8", "-metadir",
               os.path.join(work, "meta"), "-noGenerateSpecTE", "-config", cfg, os.path.join(tlc.SPEC_DIR, "Dists.tla")]
        p = subprocess.run(cmd, cwd=tlc.SPEC_DIR, env=dict(os.environ, BATCH_FILE=batch, OUT_DIR=outdir), capture_output=True,
                           text=True, timeout=3000)
        m = tlc._STATS_RE.search(p.stdout)
        if p.returncode != 0 or not m:
            run.error("TLC Dists (expansions): " + p.stdout[-2500:])
        else:
            states, distinct = int(m.group(1)), int(m.group(2))
        for t in traces:
            vf = os.path.join(outdir, t["id"] + ".json")
            if os.path.exists(vf):
                verdicts[t["id"]] = json.load(open(vf))
            elif m:
                run.error(f"{t['id']}: no verdict")
    finally:
        shutil.rmtree(work, ignore_errors=True)
    bad = 0
    byv = {it["vid"]: it for it in items}
    obs = {o["vid"]: o for o in res["vectors"]}
    for tid, v in verdicts.items():
        if v["fails"]:
            bad += 1
            vid, kind = tid.rsplit("-", 1)
            run.violation({f"expansion:{kind}:{','.join(byv[vid]['cumulants'])}"},
                          {"clause": v["fails"][0]["clause"], "cumulants": byv[vid]["cumulants"],
                           "position_in_process": items.index(byv[vid]), "polar": obs[vid].get(kind),
                           "failures": json.loads(json.dumps(v["fails"], default=str))})
    return {"expansion_vectors": len(items), "expansion_traces": len(verdicts), "expansion_failures": bad,
            "expansion_exceptions": exc, "expansion_states": distinct}


def key_fn(it, res, fails):
    """finding D30: the lower tail bound (E[M] - a)^2 / E[(M - a)^2] at a point where M = a almost surely (the
    assumption M - a >= 0 holds and the exact P(M > a) is 0): the quotient is 0/0, which the symbolic simplification
    cancels to 1.  Every failing clause must be of that kind."""
    if fails and all(f.get("clause") == "tailL" and str(f.get("semantics")) == "0" for f in fails):
        return {"D30"}
    return set()


def main(tier, seed):
    quick = tier == "quick"
    items = [it for it in C.corpus_files()][:10] + C.generated(seed, 6 if quick else 80, ngoals=2)
    for it in items:
        gl = it.get("goals") or []
        it["stat_goals"] = [g for g in gl if "*" not in g.replace("**", "")][:2] or gl[:1]
        it["K"] = 4
        # tail bounds for plain variables, thresholds below and above typical means
        singles = [g for g in gl if g.isidentifier()][:2]
        it["tail_goals"] = [{"monom": g, "a": a, "moments": 3} for g in singles for a in ("1", "2", "5")]
    # a growing counter: thresholds at or below the mean while the mass sits above them
    items.append({"id": "tail-counter", "text": "x = 0\nwhile true:\n    f = Bernoulli(3/4)\n    x = x + f\nend\n", "T": None,
                  "goals": ["x"], "points": [{}], "stat_goals": ["x"], "K": 6, "origin": "tail bounds: growing counter",
                  "tail_goals": [{"monom": "x", "a": a, "moments": 3} for a in ("1", "2", "4", "6")]})
    items.append({"id": "tail-transient", "text": "x = 6\nwhile true:\n    x = x/2 + 1 {1/2} x/2\nend\n", "T": None,
                  "goals": ["x"], "points": [{}], "stat_goals": ["x"], "K": 4, "origin": "tail bounds: transient above the threshold",
                  "tail_goals": [{"monom": "x", "a": a, "moments": 3} for a in ("1", "2", "3")]})
    # closed forms that are piecewise in n (delayed dependencies): cumulants inside the transient, also on the path of
    # the expansion actions (cli.common.get_all_cumulants with --at_n)
    for name, text, sg in (("delay_line", "x = 3\ny = 1\nz = 2\ns = 0\nwhile true:\n    x = y\n    y = z\n    z = Bernoulli(1/2)\n    s = s + x\nend\n", ["s", "x"]),
                           ("delay_choice", "a = 2\nb = 0\nc = 1\nwhile true:\n    a = b\n    b = c\n    c = c + 1 {1/3} 0\nend\n", ["a", "b"])):
        items.append({"id": "transient-" + name, "text": text, "T": None, "goals": sg, "points": [{}], "stat_goals": sg, "K": 6,
                      "origin": "transient " + name, "tail_goals": []})
    return analysis_check("C11", tier, seed, items=items, want=["parsed", "central", "cumulant", "tail", "allcum"], builders=[C.b_source, C.b_stats, C.b_tail],
                          N=8 if quick else 10, timeout=120 if quick else 300, post=expansions_part, key_fn=key_fn,
                          assumptions=["orders k <= 4; tail bounds are read from the action's printed output at every n",
                                       "Cornish-Fisher is compared with the standard expansion up to the third bracket (five cumulants), transcribed from the literature into spec/Dists.tla",
                                       "expansions use cumulant vectors with rational standard deviation"])


def replay(path):
    from ..driver import replay_analysis
    return replay_analysis("C11", path, want=["parsed", "central", "cumulant", "tail"], builders=[C.b_source, C.b_stats, C.b_tail], N=5, key_fn=key_fn)
