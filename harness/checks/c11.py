"""C11: central moments, cumulants and tail bounds match the exact law.

Central moments are computed by the spec from the definition sum w (M(s) - E M)^k, cumulants by the
set-partition formula over restricted growth strings -- both independent of Polar's conversion recursions --
and bound at every n to raw_moments_to_centrals / raw_moments_to_cumulants of Polar's closed forms.
Tail bounds: see harness tail-bound builder (Markov bounds E(M^k)/a^k and the second-moment lower bound must
be valid for the exact law whenever the stated non-negativity assumption holds on the support)."""
from fractions import Fraction as F

from .. import absyn, campaign as C
from ..driver import analysis_check, standard_items


def main(tier, seed):
    quick = tier == "quick"
    items = [it for it in C.corpus_files()][:10] + C.generated(seed, 12 if quick else 200, ngoals=2)
    for it in items:
        gl = it.get("goals") or []
        it["stat_goals"] = [g for g in gl if "*" not in g.replace("**", "")][:2] or gl[:1]
        it["K"] = 4
        # tail bounds for plain variables, thresholds below and above typical means
        singles = [g for g in gl if g.isidentifier()][:2]
        it["tail_goals"] = [{"monom": g, "a": a, "moments": 3} for g in singles for a in ("1", "2", "5")]
    # a growing counter: thresholds at or below the mean while the mass sits above them
    items.append({"id": "tail-counter", "text": "x = 0\nwhile true:\n    f = Bernoulli(3/4)\n    x = x + f\nend\n", "T": None,
                  "goals": ["x"], "points": [{}], "stat_goals": ["x"], "K": 4, "origin": "tail bounds: growing counter",
                  "tail_goals": [{"monom": "x", "a": a, "moments": 3} for a in ("1", "2", "4", "6")]})
    items.append({"id": "tail-transient", "text": "x = 6\nwhile true:\n    x = x/2 + 1 {1/2} x/2\nend\n", "T": None,
                  "goals": ["x"], "points": [{}], "stat_goals": ["x"], "K": 4, "origin": "tail bounds: transient above the threshold",
                  "tail_goals": [{"monom": "x", "a": a, "moments": 3} for a in ("1", "2", "3")]})
    return analysis_check("C11", tier, seed, items=items, want=["parsed", "central", "cumulant", "tail"], builders=[C.b_source, C.b_stats, C.b_tail],
                          N=8 if quick else 10, timeout=120 if quick else 300,
                          assumptions=["orders k <= 4; tail bounds are read from the action's printed output at every n"])


def replay(path):
    from ..driver import replay_analysis
    return replay_analysis("C11", path, want=["parsed", "central", "cumulant", "tail"], builders=[C.b_source, C.b_stats, C.b_tail], N=5)
