"""C18: loops within the documented restrictions are accepted and analysable; refusals are errors, never
wrong or partial results.

Programs are built inside the documented class (README "Loop Restrictions"): conditions and guards only over
variables that the generator keeps finitely valued, constant probabilities and parameters, non-linear
dependencies acyclic, every variable initialised.  TLC confirms the class membership that matters
semantically: clause `supp' on the SOURCE program checks that every condition variable stays inside the
finite value set the generator intended on every path (spec/LoopDist).  Outcome rule: such a program must be
accepted by normalization, and every monomial over variables Polar classifies effective must get a closed
form -- which is then judged against the semantics like in C01 (a wrong or partial result counts as well).
Shapes named in the property are fixed entries: constants in conditions, nested branches reassigning their
own condition variable, non-integer finite values in conditions, goals over loop constants, '/='."""
import random
from fractions import Fraction as F

from .. import absyn, campaign as C, gen
from ..driver import analysis_check

FIXED = [
    ("const_in_condition", "c = 2\nx = 0\nwhile true:\n    if c > 1:\n        x = x + 1\n    else:\n        x = x - 1\n    end\nend\n", ["x", "x**2"]),
    ("const_in_guard_and_condition", "k = 1\ns = 0\nx = 0\nwhile s < k:\n    s = Bernoulli(1/2)\n    if s >= k:\n        x = x + 2\n    end\nend\n", ["x", "s"]),
    ("nested_own_cond", "f = 0\nx = 0\nwhile true:\n    if f == 0:\n        f = 1 {1/2} 0\n        if f == 1:\n            x = x + 2\n            f = Bernoulli(1/3)\n        else:\n            x = x - 1\n        end\n    else:\n        f = 0\n        x = x + 1\n    end\nend\n", ["f", "x", "f*x"]),
    ("noninteger_inequality", "h = 1/2\nx = 0\nwhile true:\n    h = 1/2 {1/2} 3/2\n    if h < 1:\n        x = x + 1\n    end\nend\n", ["x", "h", "h*x"]),
    ("noninteger_equality", "h = 1/2\nx = 0\nwhile true:\n    h = 1/2 {1/3} 3/2\n    if h == 3/2:\n        x = x + h\n    end\nend\n", ["x", "h**2"]),
    ("goal_over_constant", "k = 3\nm = 2*k\nx = 0\nwhile true:\n    x = x + k {1/2} x\nend\n", ["k", "k*x", "m*x**2", "x"]),
    ("goal_over_constant_product", "k = 3\nx = 0\ny = 1\nwhile true:\n    x = x + k {1/2} x\n    y = 2 - y {1/3} y\nend\n", ["k*x*y", "k*x", "x*y", "k**2*x*y"]),
    ("neq_operator", "f = 0\nx = 0\nwhile true:\n    f = DiscreteUniform(0, 2)\n    if f /= 1:\n        x = x + 1\n    end\nend\n", ["x", "f*x"]),
    ("neq_guard", "f = 0\nx = 0\nwhile f /= 2:\n    f = DiscreteUniform(0, 2)\n    x = x + f\nend\n", ["x", "f"]),
    ("constant_probabilistic_init", "b = Bernoulli(1/2)\nx = 0\nwhile true:\n    if b == 1:\n        x = x + 1\n    end\nend\n", ["x", "b*x", "b"]),
    ("shared_noninteger_condition", "h = 1/2\nb = 0\nx = 0\ny = 0\nwhile true:\n    h = 1/2 {1/2} 3/2\n    b = Bernoulli(1/2)\n    if h < 1 && b == 1:\n        x = x + 1\n        y = y + 2\n    end\nend\n", ["x", "y", "x*y"]),
    ("init_twice_assigned", "x = 1\nx = x + 1\nwhile true:\n    x = x {1/2} 1\nend\n", ["x", "x**2"]),
    ("decimal_probabilities", "x = 0\ny = 0\nwhile true:\n    x = x + 1 {0.7} x + 2 {0.2} x - 3 {0.1}\n    y = y + x {0.8} y {0.1} 0 {0.1}\nend\n", ["x", "y", "x*y"]),
    ("counter_bounded_by_guard", "c = 0\nx = 0\nwhile c < 3:\n    c = c + 1 {1/2} c\n    x = x + c\nend\n", ["c", "x"]),
    ("dice_sum", "d1 = 1\nd2 = 1\nx = 0\nwhile true:\n    d1 = DiscreteUniform(1, 6)\n    d2 = DiscreteUniform(1, 6)\n    if d1 + d2 == 7:\n        x = x + 1\n    end\nend\n", ["x", "x**2"]),
    ("dice_sticky", "d1 = 1\nd2 = 6\nk = 0\nx = 0\nwhile true:\n    k = Bernoulli(1/2)\n    if k == 1:\n        d1 = DiscreteUniform(1, 6)\n    else:\n        d2 = DiscreteUniform(1, 6)\n    end\n    if d1 + d2 == 7:\n        x = x + 1\n    end\nend\n", ["x"]),
    ("finite_coefficient_power", "c = 1\nx = 1\nwhile true:\n    c = 1 {1/2} 2\n    x = c**2*x/4 + c\nend\n", ["x", "c*x"]),
    ("two_flags", "a = 0\nb = 1\nx = 1\nwhile true:\n    a = 1 - a\n    b = Bernoulli(1/4)\n    if a == 1 && b == 0:\n        x = 2*x\n    elif a == 0 || b == 1:\n        x = x + 1\n    end\nend\n", ["x", "a*x", "b*x"]),
]


def cond_vars(stmts, acc):
    def cv(c):
        if c[0] == "atom":
            for p in (c[1], c[3]):
                for _, m in p:
                    for v, _ in m:
                        acc.add(v)
        elif c[0] in ("and", "or"):
            cv(c[1])
            cv(c[2])
        elif c[0] == "not":
            cv(c[1])
    for s in stmts:
        if s[0] == "if":
            for c in s[1]:
                cv(c)
            for b in s[2]:
                cond_vars(b, acc)
            cond_vars(s[3], acc)
    return acc


def b_inclass(ctx):
    """class membership as far as it is semantic: condition variables stay in their finite sets (TLC decides)"""
    it = ctx.it
    fv = it.get("fvals")
    if not fv:
        return
    P = ctx.srcP
    for v, vals in fv.items():
        if v not in P["vars"]:
            continue
        for n in range(ctx.N + 1):
            ctx.claim(n, {"t": "supp", "pi": ctx.src, "v": v, "vals": [F(x) for x in vals], "tag": "inclass:" + v,
                          "start": P["s0"].get(v, 0), "exempt": True})


def post(ctx):
    run = ctx["run"]
    refused = accepted = goal_refusals = timeouts = 0
    for suffix, results in ctx["results"].items():
        for it in ctx["items"]:
            r = results.get(it["id"], {})
            keys = {it["id"]} | set(it.get("meta", {}).get("finding", "").split())
            if r.get("stage") in ("timeout", "crash"):
                timeouts += 1
                continue
            if r.get("stage"):
                refused += 1
                run.violation(keys | {f"refusal:{r.get('exc')}"},
                              {"clause": "program of the documented class refused", "program": it["text"], "stage": r["stage"],
                               "exception": r.get("exc"), "message": r.get("msg"), "where": r.get("where")})
                continue
            accepted += 1
            lost = set(r.get("defective", [])) & set(r.get("original_variables", []))
            if lost and (it.get("T") is not None or it["id"].startswith("shape-")):
                # programs of the class have no non-linear dependency cycle: nothing may be classified defective
                run.violation(keys | {f"{it['id']}:defective"},
                              {"clause": "variable of an in-class program classified defective", "program": it["text"],
                               "defective": sorted(lost)})
            eff = set(r.get("effective", [])) | set(r.get("original_variables", [])) - set(r.get("defective", []))
            for g, go in (r.get("goals") or {}).items():
                if "exc" in go and go["exc"] != "timeout":
                    vs = {v for v, _ in absyn.mono_of(g)[0][1]}
                    if vs & set(r.get("defective", [])):
                        continue
                    goal_refusals += 1
                    if go["exc"] == "NotImplementedError" and "sorted roots not supported" in (go.get("msg") or "") \
                            and it.get("params"):
                        keys = keys | {"D21"}     # call site: get_all_roots on a parametric polynomial of degree >= 5
                    if go["exc"] == "RecursionError" and go.get("where_polar") in ("_solve_rec_by_summing", "solve_rec_by_summing") \
                            and it.get("params"):
                        keys = keys | {"D31"}     # call site: symbolic summation with a symbolic parameter
                    run.violation(keys | {f"{it['id']}:{g}", f"goal-refusal:{go['exc']}"},
                                  {"clause": "goal over effective variables refused", "program": it["text"], "goal": g,
                                   "exception": go["exc"], "message": go.get("msg"), "where": go.get("where"), "where_polar": go.get("where_polar")})
    return {"programs_accepted": accepted, "programs_refused": refused, "goals_refused": goal_refusals,
            "timeouts_not_judged": timeouts}


def main(tier, seed):
    quick = tier == "quick"
    items = []
    for name, text, goals in FIXED:
        meta = {"finding": "D12"} if name == "counter_bounded_by_guard" else {}
        items.append({"id": "shape-" + name, "text": text, "T": None, "goals": goals, "points": "auto",
                      "origin": "fixed shape " + name, "meta": meta})
    n_gen = 26 if quick else 100
    i = -1
    made = 0
    while made < n_gen:
        i += 1
        s = seed * 100019 + i
        g = gen.Gen(s, {"neq": True})
        T, params = g.gen()
        if gen.paths(T["body"]) ** 3 > 4000:
            continue
        made += 1
        rng = random.Random(s + 1)
        cv = cond_vars(T["body"], set())
        fvals = {v: vals for v, vals in g.fvals.items() if v in cv or v in ("c", "stop")}
        base = {"T": T, "params": params, "points": gen.choose_points(params, rng, k=1), "goals": gen.default_goals(T, rng, 2, 4),
                "fvals": fvals, "origin": f"generator seed={s}"}
        items.append(dict(base, id=f"cls-{seed}-{i}", text=gen.render(gen.to_text_template(T), types=g.types), types=g.types))
        if g.types and made % 3 == 0:
            # by the README nobody has to declare types: the same loop without the declaration (finding D12)
            items.append(dict(base, id=f"cls-{seed}-{i}-untyped", text=gen.render(gen.to_text_template(T)), types=None,
                              meta={"finding": "D12"}))
    for it in items:
        if it["id"].startswith("shape-"):
            it["solvability_check"] = True       # the CLI's --solvability_check must not refuse effective monomials
    return analysis_check("C18", tier, seed, items=items, want=["parsed", "moments"],
                          builders=[C.b_source, b_inclass, C.b_moments], N=4 if quick else 6, timeout=100, post=post,
                          assumptions=["class membership: syntactic restrictions hold by construction of the generator; finiteness of the condition variables is confirmed by TLC up to depth N",
                                       "programs whose analysis exceeds the time limit are not judged"])
