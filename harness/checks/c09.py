"""C09: moments after termination.

Sequence clause: get_moment_given_termination evaluated at n is bound (clause cmom of spec/LoopTrace.tla) to
E[M ; not guard] / P(not guard) of the SOURCE program's distribution after n iterations (guard evaluated on
the current store); n with P(not guard) = 0 are skipped by the spec.
Limit clause (finite-state loops): the reported --after_loop value is compared with the conditional moment
at the iteration where the reachable set is closed and the chain is absorbed up to a stated residual mass;
see post().  Infinite-state limits are not decided (DESIGN.md section 8)."""
from fractions import Fraction as F

from .. import campaign as C
from ..driver import analysis_check, standard_items


def key_fn(it, res, fails):
    """the known one-iteration lag (finding D9): every failing clause is an `aligned' one, i.e. all the
    `lagged' clauses of the same trace hold"""
    tags = [f.get("tag") or "" for f in fails]
    if tags and all(t.startswith("aligned:") for t in tags):
        return {"D9"}
    return set()


def limit_part(ctx):
    """The reported after-loop value against Polar's own termination sequence far out (n = 150, 300): the sequence
    is what TLC validates for n <= N (up to the known lag, which does not move the limit); this step only makes
    sure that the limit transformation returns the limit of that sequence.  Outside TLC (floating point)."""
    run = ctx["run"]
    checked = undecided = bad = 0
    for suffix, results in ctx["results"].items():
        for it in ctx["items"]:
            r = results.get(it["id"], {})
            for g, to in (r.get("term") or {}).items():
                for pi, lim in enumerate(to.get("limit", [])):
                    a, b = (to["far"][pi] + [None, None])[:2]
                    if a is None or b is None or a != a or b != b:
                        undecided += 1
                        continue
                    import math
                    if math.isinf(a) or math.isinf(b):
                        # the float conversion overflowed: the sequence diverges as far as this comparison can tell
                        if lim.get("inf"):
                            checked += 1
                        else:
                            undecided += 1
                        continue
                    converged = abs(a - b) <= 1e-9 * (abs(b) + 1)
                    if lim.get("inf"):
                        checked += 1
                        if converged:
                            bad += 1
                            run.violation({it["id"], f"{it['id']}:limit:{g}"},
                                          {"clause": "after-loop value reported infinite although the sequence converges",
                                           "program": it["text"], "goal": g, "sequence_at_150_300": [a, b], "reported": lim})
                        continue
                    if "q" not in lim and "approx" not in lim:
                        undecided += 1
                        continue
                    L = float(F(lim["q"])) if "q" in lim else float(lim["approx"])
                    if not converged:
                        undecided += 1
                        continue
                    checked += 1
                    if abs(L - b) > 1e-6 * (abs(b) + 1):
                        bad += 1
                        run.violation({it["id"], f"{it['id']}:limit:{g}"},
                                      {"clause": "after-loop value is not the limit of the termination sequence",
                                       "program": it["text"], "goal": g, "sequence_at_150_300": [a, b], "reported_limit": L})
    # central moments and cumulants after the loop: textbook conversion of the far conditional raw moments
    from math import comb
    st_checked = st_bad = st_undecided = 0
    for suffix, results in ctx["results"].items():
        for it in ctx["items"]:
            r = results.get(it["id"], {})
            for g, ao in (r.get("after_stats") or {}).items():
                for pi, rows in enumerate(ao.get("far_raw", [])):
                    try:
                        ra, rb = [[float(F(x)) for x in row] for row in rows]
                    except Exception:
                        st_undecided += 1
                        continue
                    if any(abs(x - y) > 1e-9 * (abs(y) + 1) for x, y in zip(ra, rb)):
                        # some raw moment still moves between n = 150 and 300.  If the central moment computed from the far
                        # raw moments is huge and keeps growing, the quantity diverges and must be reported as infinite.
                        def cen_of(r_, k_):
                            m_ = [1.0] + r_
                            return sum(comb(k_, j) * m_[j] * (-m_[1]) ** (k_ - j) for j in range(k_ + 1))
                        for kind in ("central", "cumulant"):
                            for k, vals in ao.get(kind, {}).items():
                                if int(k) == 4 and kind == "cumulant":
                                    continue
                                try:
                                    ca, cb = cen_of(ra, int(k)), cen_of(rb, int(k))
                                except OverflowError:
                                    continue
                                if abs(cb) > 1e12 and abs(cb) > 1e6 * abs(ca) and abs(ra[0] - rb[0]) <= 1e-9 * (abs(rb[0]) + 1):
                                    st_checked += 1
                                    if not vals[pi].get("inf"):
                                        st_bad += 1
                                        run.violation({it["id"], f"{it['id']}:after:{kind}{k}:{g}"},
                                                      {"clause": f"{kind} moment after the loop diverges (far terms {ca:.3g}, {cb:.3g}) but is not reported as infinite",
                                                       "program": it["text"], "goal": g, "order": k, "reported": vals[pi]})
                        st_undecided += 1
                        continue
                    m = [1.0] + rb
                    mu = m[1]
                    cen = {k: sum(comb(k, j) * m[j] * (-mu) ** (k - j) for j in range(k + 1)) for k in (2, 3, 4)}
                    cum = {2: cen[2], 3: cen[3], 4: cen[4] - 3 * cen[2] ** 2}
                    for kind, ref in (("central", cen), ("cumulant", cum)):
                        for k, vals in ao.get(kind, {}).items():
                            v = vals[pi]
                            if "q" not in v and "approx" not in v:
                                st_undecided += 1
                                continue
                            got = float(F(v["q"])) if "q" in v else float(v["approx"])
                            st_checked += 1
                            scale = max(1.0, abs(ref[int(k)]), abs(mu) ** int(k), m[2] ** (int(k) / 2))
                            if abs(got - ref[int(k)]) > 1e-6 * scale:
                                st_bad += 1
                                run.violation({it["id"], f"{it['id']}:after:{kind}{k}:{g}"},
                                              {"clause": f"{kind} moment after the loop is not the {kind} moment of the limiting conditional law",
                                               "program": it["text"], "goal": g, "order": k, "reported": got, "from_far_raw_moments": ref[int(k)],
                                               "far_raw_moments": rb})
    return {"after_loop_limits_checked": checked, "after_loop_limits_undecided": undecided, "after_loop_limit_failures": bad,
            "after_loop_central_cumulant_checked": st_checked, "after_loop_central_cumulant_failures": st_bad,
            "after_loop_central_cumulant_undecided": st_undecided}


def main(tier, seed):
    quick = tier == "quick"
    items = [it for it in C.corpus_files() if "while true" not in it["text"]]
    shapes = [
        ("guard_overlapping_or", "c = 0\nx = 0\nwhile c <= 1 || (c >= 1 && c < 3):\n    c = c + 1 {1/2} c\n    x = x + 2\nend\n", ["x", "c", "x**2"],
         {"c": [0, 1, 2, 3]}),
        ("guard_not_eq", "c = 0\nx = 0\nwhile c < 2 || !(c == 3):\n    c = c + 1 {1/3} c\n    x = x + c\nend\n", ["x", "c"], {"c": [0, 1, 2, 3]}),
        ("guard_inequality_multi", "c = 0\nx = 1\nwhile c < 3:\n    c = c + 1 {1/2} c + 2 {1/4} c\n    x = 2*x\nend\n", ["x", "c", "c*x"], {"c": [0, 1, 2, 3, 4]}),
        ("guard_trap", "c = 0\nx = 0\nwhile c < 3:\n    x = x + 1\n    if c == 0:\n        c = 1 {1/3} 3 {1/3} 0\n    end\nend\n", ["x", "c"], {"c": [0, 1, 3]}),
    ]
    # the body of the guarded loop is a single if-statement (or a chain of them): the branch condition is not part of
    # the guard, the loop stops only when the guard is false
    shapes += [
        ("body_is_one_if", "stop = 0\nc = 0\nx = 0\nwhile stop == 0:\n    if c == 0:\n        x = x + 1\n        c = Bernoulli(1/2)\n        stop = Bernoulli(1/4)\n    end\nend\n",
         ["stop", "x", "c", "x*stop"], {}),
        ("body_is_nested_ifs", "stop = 0\nc = 0\nd = 0\nx = 0\nwhile stop == 0:\n    if c == 0:\n        if d == 0:\n            x = x + 2\n            d = Bernoulli(1/3)\n            c = Bernoulli(1/5)\n            stop = Bernoulli(1/2)\n        end\n    end\nend\n",
         ["stop", "x", "d"], {}),
        ("body_is_one_if_stop_outside_possible", "stop = 0\nc = 0\nx = 0\nwhile stop == 0:\n    if c == 0:\n        x = x + 1\n        c = Bernoulli(1/2)\n    end\n    stop = Bernoulli(1/4)\nend\n",
         ["stop", "x", "c"], {}),
    ]
    # loops that stop only with probability < 1 (the conversion to central moments is not linear in 1/P(stop))
    shapes += [
        ("goal_over_constant", "x = -2\nk = 2\nstop = 0\nwhile stop == 0:\n    x = x {1/2} 1/2*x + 3/2\n    stop = Bernoulli(1/5)\nend\n", ["k*x", "x", "k"], {}),
        ("heavy_tail_exit", "x = 1\nstop = 0\nwhile stop == 0:\n    x = 3*x/2\n    stop = Bernoulli(1/2)\nend\n", ["x", "stop"], {}),
        ("stops_with_prob_half", "d = Bernoulli(1/2)\nstop = 0\nx = 0\nwhile stop == 0:\n    x = x + 1\n    if d == 1:\n        stop = Bernoulli(1/3)\n    end\nend\n",
         ["x", "stop"], {}),
        ("exit_on_draw", "stop = 0\nx = 0\nwhile stop == 0:\n    x = DiscreteUniform(0, 3)\n    if x >= 2:\n        stop = Bernoulli(1/2)\n    end\nend\n",
         ["x", "stop"], {}),
    ]
    for name, text, goals, types in shapes:
        decl = "" if not types else "types\n" + "".join(f"    {v} : Finite({', '.join(map(str, vals))})\n" for v, vals in types.items()) + "end\n"
        if not types:
            decl = ""
        items.append({"id": "gshape-" + name, "text": decl + text, "T": None, "goals": goals, "points": [{}],
                      "origin": "fixed guarded shape " + name, "types": types})
        if name in ("stops_with_prob_half", "body_is_one_if", "heavy_tail_exit"):
            # central moments / cumulants after the loop through the goal handlers (four powers of the goal: slower)
            items[-1].update(want_extra=["after_stats"], timeout=400)
    gen_items = C.generated(seed, 20 if quick else 100, profile={"guard": "flag"}, ngoals=3) + \
        C.generated(seed + 1, 12 if quick else 60, profile={"guard": "counter"}, ngoals=3, prefix="genc")
    items += gen_items
    return analysis_check("C09", tier, seed, items=items, want=["parsed", "term", "after"], builders=[C.b_source, C.b_term],
                          N=6 if quick else 9, timeout=120, key_fn=key_fn, post=limit_part,
                          assumptions=["the limit n -> infinity is not decided by the spec: the reported after-loop value is only compared (floating point, outside TLC) with Polar's own sequence at n = 150 and 300"])


def replay(path):
    from ..driver import replay_analysis
    return replay_analysis("C09", path, want=["parsed", "term"], builders=[C.b_source, C.b_term], N=6, key_fn=key_fn)
