"""C17: strategy and representation options do not change any reported result.

Every option combination is a separate analysis of the same program; each is validated against the SAME
LoopDist behaviour (clause mom), so any two settings under which a goal succeeds agree at every n.  Numeric
root options: a result flagged exact must be equal; a result flagged rounded may deviate by a stated
tolerance (clause momI)."""
import random
from fractions import Fraction as F

from .. import absyn, campaign as C, gen
from ..driver import analysis_check, standard_items


def b_moments_flagged(ctx):
    """like b_moments, but honours the is_exact flag: rounded results are compared with a tolerance"""
    if ctx.res.get("stage"):
        raise C.SkipTrace("refused")
    P = ctx.srcP
    for g, go in ctx.res.get("goals", {}).items():
        if "values" not in go:
            ctx.note("goal_exception")
            continue
        poly = absyn.mono_of(g)
        if any(v not in P["vars"] for v, _ in poly[0][1]):
            continue
        if not C.surrogate_ok(ctx.srcP, poly):
            ctx.note("goal_degree_beyond_surrogate")
            continue
        exact = go.get("is_exact", True)
        for n, val in enumerate(go["values"][ctx.pi][:ctx.N + 1]):
            if exact and "float" in val:
                # flagged exact although it contains floating point numbers: must then be exactly equal
                cl, why = {"t": "mom", "pi": ctx.src, "poly": poly, "tag": g, "val": F(val["float"])}, None
            elif exact:
                cl, why = C.val_claims("mom", val, {"pi": ctx.src, "poly": poly, "tag": g})
            else:
                x = None
                for k in ("q", "approx", "float"):
                    if k in val:
                        x = F(val[k])
                if x is None:
                    cl, why = None, "undef"
                else:
                    eps = (abs(x) + 1) * F(ctx.it.get("tol", "1/100000"))
                    cl, why = {"t": "momI", "pi": ctx.src, "poly": poly, "tag": g + "(rounded)", "lo": x - eps, "hi": x + eps}, None
                    ctx.note("rounded_claims")
            if cl is None:
                ctx.note(why)
                if why == "free":
                    ctx.direct.append({"clause": "free-symbol", "goal": g, "n": n, "polar_value": val})
                continue
            ctx.claim(n, cl)


def main(tier, seed):
    quick = tier == "quick"
    items = standard_items(seed, tier, 5, 20, bench_quick=2, ngoals=4, corpus_quick=6, ps_quick=3, ps_thorough=20, bench_thorough=10)
    # declared instead of inferred types: generated programs know the value sets of their finite variables
    extra = []
    for it in items:
        if it.get("T") is not None and it["id"].startswith("gen-"):
            g = gen.Gen(int(it["origin"].split("=")[1]))
            T, params = g.gen()
            types = dict(g.fvals)
            text = gen.render(gen.to_text_template(T), types={k: v for k, v in types.items()})
            extra.append(dict(it, id=it["id"] + "-declared", text=text, types=types, user_typed=sorted(types)))
    items += extra[: (3 if quick else 20)]
    # Normal / Uniform / Laplace draws with state-dependent location (decided through moment-matched finite laws)
    items += C.generated(seed + 13, 3 if quick else 15, profile={"cont": True, "params": False, "sym_init": False}, ngoals=4, prefix="genk")
    # declared instead of inferred types on variables that are assigned more than once per iteration
    body = "x = 0\ny = 0\nz = 0\nwhile true:\n    x = Bernoulli(1/2)\n    if x == 1:\n        y = y + 1\n    end\n    z = z + x**2\n    x = 2*x\nend\n"
    body2 = "f = 1\ns = 0\nwhile true:\n    f = DiscreteUniform(1, 3)\n    s = s + f**3\n    f = f - 1\n    if f == 0:\n        s = s + 1\n    end\n    f = 2*f\nend\n"
    for name, decl, text, goals in (("twice_inferred", "", body, ["x", "y", "z", "x**2"]),
                                    ("twice_declared", "types\n    x : Finite(0, 2)\nend\n", body, ["x", "y", "z", "x**2"]),
                                    ("thrice_inferred", "", body2, ["f", "s", "f**2"]),
                                    ("thrice_declared", "types\n    f : Finite(0, 2, 4)\nend\n", body2, ["f", "s", "f**2"])):
        items.append({"id": "decl-" + name, "text": decl + text, "T": None, "goals": goals, "points": [{}],
                      "origin": "declared vs inferred types: " + name, "user_typed": ["x", "f"]})
    # second-order recurrences with irrational roots next to a rational dominant root (numeric root options)
    items.append({"id": "roots-mixed", "T": None, "goals": ["x", "y", "s", "s*x"], "points": [{}], "origin": "irrational roots and the root 1",
                  "text": "x = 1\ny = 0\ns = 0\nb = 0\nt = 0\nwhile true:\n    b = Bernoulli(1/2)\n    t = x\n    x = x/4 + y/2 + b\n    y = t\n    s = s + 1\nend\n"})
    items.append({"id": "roots-pell-plus-2", "T": None, "goals": ["x", "w", "x*w"], "points": [{}], "origin": "irrational roots and the root 2",
                  "text": "x, y = 0, 1\nw = 1\nwhile true:\n    x, y = y, x + y/2\n    w = 2*w + 1\nend\n"})
    variants = [("", {}), ("-c2a", {"cond2arithm": True}), ("-tc", {"transform_categoricals": True}),
                ("-cyc", {"__force_cyclic": True}), ("-nr", {"numeric_roots": True, "numeric_eps": 1e-10}),
                ("-ncr", {"numeric_croots": True})]
    if not quick:
        variants += [("-c2a-tc", {"cond2arithm": True, "transform_categoricals": True}),
                     ("-cyc-c2a", {"__force_cyclic": True, "cond2arithm": True})]
    return analysis_check("C17", tier, seed, items=items, want=["parsed", "moments", "cont"], variants=variants,
                          builders=[C.b_source, b_moments_flagged], N=5 if quick else 8, timeout=90,
                          assumptions=["rounded results (is_exact = False) may deviate by (|v|+1)*1e-5",
                                       "force_cyclic_solver is not reachable from the CLI; the harness passes it to RecurrenceSolver through a run-time wrapper"])
