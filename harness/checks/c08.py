"""C08: built-in distributions report their true moments, support and transforms; location/scale rewriting
of draws with variable parameters keeps the drawn value's conditional law.

Part 1 (table): for a grid of families x parameters, Polar's get_moment(k), get_support(), is_discrete(),
the k-th derivatives at 0 of its mgf / cf, mgf_exists_at(t) and real samples are recorded and judged row by
row by spec/Dists.tla (defining sums for discrete families, moment recurrences for continuous ones, support
and mgf-domain tables; the affine lemma is checked by TLC on the same grid).
Part 2 (rewriting): programs whose last statement is a draw z = Family(parameters depending on finitely
valued variables).  Polar's closed forms for E(z^k * m) are bound (clause cdraw of spec/LoopTrace.tla) to
sum_store w * m(store) * Moment(Family(params(store)), k), computed by the spec on the SOURCE program -- the
DistTransformer's rewriting (fixed draw plus arithmetic) must not change them."""
import json
import os
import random
import shutil
import subprocess
import tempfile
from fractions import Fraction as F

from .. import absyn, campaign as C, encode as E, gen, pool, tlc
from ..driver import analysis_check
from ..report import Run


def q(x):
    x = F(x)
    return {"n": E.enc_z(x.numerator), "d": E.enc_z(x.denominator)}


def grid(quick):
    G = []

    def add(name, params, spec, **kw):
        G.append(dict(name=name, params=[str(p) for p in params], spec=spec, **kw))
    for p in ["1/3", "1/2", "0", "1", "0.1", "7/8"]:
        add("Bernoulli", [p], {"f": "bernoulli", "p": F(p)})
    for ps in (["1/2", "1/4", "1/4"], ["1/3", "2/3"], ["0.1", "0.2", "0.7"], ["1"], ["1/5", "1/5", "1/5", "2/5"]):
        add("Categorical", ps, {"f": "categorical", "ps": [F(x) for x in ps]}, transforms=False)
    for a, b in ((0, 2), (-1, 1), (1, 6), (3, 3), (-3, -1)):
        add("DiscreteUniform", [a, b], {"f": "duniform", "lo": a, "hi": b})
    for mu, s2 in (("0", "1"), ("1", "4"), ("-2", "1/2"), ("1/3", "9/4"), ("0.5", "0.25"), ("3", "2")):
        add("Normal", [mu, s2], {"f": "normal", "mu": F(mu), "s2": F(s2)},
            affine={"d0": {"f": "normal", "mu": F(0), "s2": F(1)}, "loc": F(mu), "scale2": F(s2)})
    for a, b in (("0", "1"), ("-1", "2"), ("1/2", "3/2"), ("2", "5"), ("-3", "-1")):
        add("Uniform", [a, b], {"f": "uniform", "a": F(a), "b": F(b)},
            affine={"d0": {"f": "uniform", "a": F(0), "b": F(1)}, "loc": F(a), "scale": F(b) - F(a)})
    for lam in ("1", "2", "1/3", "0.5", "7/2"):
        add("DistExp", [lam], {"f": "exponential", "lambda": F(lam)},
            affine={"d0": {"f": "exponential", "lambda": F(1)}, "loc": F(0), "scale": 1 / F(lam)})
    for k, th in (("2", "1/2"), ("1", "1"), ("3", "2"), ("1/2", "2"), ("5/2", "1/3")):
        add("Gamma", [k, th], {"f": "gamma", "shape": F(k), "scale": F(th)})
    for a, b, sc in (("2", "3", None), ("1", "1", None), ("1/2", "1/2", None), ("2", "2", "3"), ("3", "1", "1/2")):
        add("Beta", [a, b] + ([sc] if sc else []), {"f": "beta", "a": F(a), "b": F(b), "scale": F(sc or 1)}, transforms=False)
    for mu, b in (("0", "1"), ("1", "1/2"), ("-1", "2"), ("1/2", "1/3")):
        add("Laplace", [mu, b], {"f": "laplace", "mu": F(mu), "b": F(b)},
            affine={"d0": {"f": "laplace", "mu": F(0), "b": F(b)}, "loc": F(mu), "scale": F(1)})
    for mu, s2, a, b in (("5", "1", "4", "6"), ("0", "1", "-1", "1"), ("0", "4", "0", "3"), ("2", "1/4", "1", "5/2"), ("1", "1", "0", "2"),
                         ("-3", "2", "-5", "-1"), ("1/2", "1/9", "0", "1")):
        sym = F(a) + F(b) == 2 * F(mu)
        add("TruncNormal", [mu, s2, a, b], {"f": "truncnormal", "a": F(a), "b": F(b), "mu": F(mu)}, transforms=False, no_moments=True,
            mean_only=sym)
    for i, g in enumerate(G):
        g["did"] = f"d{i}"
    return G


def enc_spec(sp):
    out = {}
    for k, v in sp.items():
        if k == "f" or k in ("lo", "hi") and sp["f"] == "duniform":
            out[k] = v
        elif k == "ps":
            out[k] = [q(x) for x in v]
        else:
            out[k] = q(v)
    return out


def table_part(run, quick):
    G = grid(quick)
    K = 6 if quick else 8
    jobs = []
    for i in range(0, len(G), 4):
        jobs.append({"kind": "dists", "id": f"dj{i}", "K": K, "samples": 60 if quick else 300, "timeout": 900,
                     "dists": [{k: g[k] for k in ("did", "name", "params") if k in g} | {"transforms": g.get("transforms", True)}
                               for g in G[i:i + 4]]})
    res = pool.run_jobs(jobs, per_job_timeout=900)
    obs = {}
    for r in res.values():
        for o in r.get("dists", []):
            obs[o["did"]] = o
    traces = []
    notes = {"transform_unavailable": 0, "moment_exceptions": 0}
    for g in G:
        o = obs.get(g["did"])
        if o is None or "rows" not in o:
            run.error(f"{g['name']}{g['params']}: no observation {o}")
            continue
        rows = []
        for k, row in enumerate(o["rows"]):
            rr = {"k": k}
            if g.get("mean_only") and k <= 1 and "moment" in row:
                rr["moment"] = q(row["moment"])         # symmetric truncation: the mean is mu (exact by symmetry)
            if not g.get("no_moments"):
                if "moment" in row:
                    rr["moment"] = q(row["moment"])
                else:
                    notes["moment_exceptions"] += 1
                for tname in ("mgf", "cf"):
                    if tname in row:
                        rr[tname] = q(row[tname])
            rows.append(rr)
        for tname in ("mgf", "cf"):
            if tname + "_exc" in o:
                notes["transform_unavailable"] += 1
        sup = o.get("support", {"lo": [], "hi": []})
        tr = {"id": g["did"], "dist": enc_spec(g["spec"]), "rows": rows,
              "obs": {"discrete": o["discrete"],
                      "supportLo": [{"inf": x == "-inf", "v": q(0 if x == "-inf" else x)} for x in [min(sup["lo"], key=lambda z: F(-10 ** 9) if z == "-inf" else F(z))]] if sup["lo"] else [],
                      "supportHi": [{"inf": x == "inf", "v": q(0 if x == "inf" else x)} for x in [max(sup["hi"], key=lambda z: F(10 ** 9) if z == "inf" else F(z))]] if sup["hi"] else [],
                      "mgfAt": [{"t": q(t), "exists": e} for t, e in o.get("mgf_at", []) if isinstance(e, bool)],
                      "samples": [q(x) for x in o.get("samples", [])]}}
        if "affine" in g and "scale" in g["affine"]:
            tr["affine"] = {"d0": enc_spec(g["affine"]["d0"]), "loc": q(g["affine"]["loc"]), "scale": q(g["affine"]["scale"]), "K": K}
        traces.append(tr)
    verdicts = {}
    states = distinct = 0
    work = tempfile.mkdtemp(prefix="verif-dists-")
    try:
        batch = os.path.join(work, "batch.json")
        outdir = os.path.join(work, "out")
        os.mkdir(outdir)
        json.dump({"traces": traces}, open(batch, "w"))
        cfg = os.path.join(work, "d.cfg")
        open(cfg, "w").write("SPECIFICATION Spec\nINVARIANT TypeOK\nCHECK_DEADLOCK FALSE\n")
        cmd = ["java", "-XX:+UseParallelGC", "-Xmx6g", "-Xss64m", "-cp", tlc.TLC_CP, "tlc2.TLC", "-workers", "16", "-metadir",
               os.path.join(work, "meta"), "-noGenerateSpecTE", "-config", cfg, os.path.join(tlc.SPEC_DIR, "Dists.tla")]
        p = subprocess.run(cmd, cwd=tlc.SPEC_DIR, env=dict(os.environ, BATCH_FILE=batch, OUT_DIR=outdir),
                           capture_output=True, text=True, timeout=3000)
        m = tlc._STATS_RE.search(p.stdout)
        if p.returncode != 0 or not m:
            run.error("TLC Dists: " + p.stdout[-2500:])
        else:
            states, distinct = int(m.group(1)), int(m.group(2))
        for t in traces:
            vf = os.path.join(outdir, t["id"] + ".json")
            if os.path.exists(vf):
                verdicts[t["id"]] = json.load(open(vf))
    finally:
        shutil.rmtree(work, ignore_errors=True)
    byid = {g["did"]: g for g in G}
    nfail = 0
    for did, v in verdicts.items():
        if v["fails"]:
            nfail += 1
            g = byid[did]
            clauses = sorted({f["clause"] for f in v["fails"]})
            run.violation({f"{g['name']}:{c}" for c in clauses} | {f"{g['name']}({','.join(g['params'])})"},
                          {"distribution": f"{g['name']}({', '.join(g['params'])})", "clauses": clauses,
                           "failing_orders": sorted({f["k"] for f in v["fails"]}),
                           "observed_rows": obs[did]["rows"][:4], "samples": obs[did].get("samples", [])[:4]})
    return {"dist_states": distinct, "dist_transitions": states, "distributions": len(G), "dist_traces": len(verdicts),
            "distributions_with_failures": nfail, "max_order": K, **notes,
            "dist_samples": [{"distribution": f"{byid[d]['name']}({', '.join(byid[d]['params'])})",
                              "moments": [r.get("moment") for r in obs[d]["rows"]]} for d in list(verdicts)[:3]]}


# ---- part 2: draws with variable-dependent parameters

def b_cdraw(ctx):
    if ctx.res.get("stage"):
        raise C.SkipTrace("refused")
    it = ctx.it
    ctx.src = ctx.add_prog(it["P"])
    ctx.srcP = it["P"]
    for g, go in ctx.res.get("goals", {}).items():
        if "values" not in go:
            ctx.note("goal_exception")
            continue
        k, mono = it["goalmap"][g]
        for n, val in enumerate(go["values"][ctx.pi][:ctx.N + 1]):
            if n == 0:
                continue       # z is not initialised before the first iteration
            if "q" in val and it.get("guard_var"):
                # z = c0 before, drawn only if the {0,1}-valued guard variable is 1: E[m z^k] = E[m g fam^k] + c0^k E[m (1 - g)]
                gv, c0 = it["guard_var"], it["else_value"]
                mg = [(c, tuple(sorted(dict(mono_).items() | {(gv, 1)} if gv not in dict(mono_) else
                                   [(v, e + (1 if v == gv else 0)) for v, e in mono_]))) for c, mono_ in mono]
                ep = [(c * c0 ** k, mono_) for c, mono_ in mono] + [(-c * c0 ** k, m2) for c, m2 in mg]
                ctx.claim(n, {"t": "cdraw", "pi": ctx.src, "fam": it["fam"], "params": it["params_polys"], "k": k,
                              "poly": mg, "ep": ep, "val": F(val["q"]), "tag": g})
            elif "q" in val:
                ctx.claim(n, {"t": "cdraw", "pi": ctx.src, "fam": it["fam"], "params": it["params_polys"], "k": k,
                              "poly": mono, "val": F(val["q"]), "tag": g})
            else:
                ctx.note("cdraw_" + next(iter(val)))


def V(v, e=1):
    return ((v, e),)


def cdraw_items(rng, quick):
    """discrete prefix + one final continuous draw whose parameters depend on finitely valued variables"""
    items = []
    shapes = [
        ("normal", "Normal(x + 1, y + 1)", [[(F(1), V("x")), (F(1), ())], [(F(1), V("y")), (F(1), ())]]),
        ("normal", "Normal(2*x - y, 4)", [[(F(2), V("x")), (F(-1), V("y"))], [(F(4), ())]]),
        ("normal", "Normal(x*y, x + 1)", [[(F(1), (("x", 1), ("y", 1)))], [(F(1), V("x")), (F(1), ())]]),
        ("uniform", "Uniform(x, x + y + 1)", [[(F(1), V("x"))], [(F(1), V("x")), (F(1), V("y")), (F(1), ())]]),
        ("uniform", "Uniform(-y, 2*x + 1)", [[(F(-1), V("y"))], [(F(2), V("x")), (F(1), ())]]),
        ("laplace", "Laplace(x - y, 1/2)", [[(F(1), V("x")), (F(-1), V("y"))], [(F(1, 2), ())]]),
        ("laplace", "Laplace(x, y + 1)", [[(F(1), V("x"))], [(F(1), V("y")), (F(1), ())]]),
        ("laplace", "Laplace(x + 2*y + 1, 2)", [[(F(1), V("x")), (F(2), V("y")), (F(1), ())], [(F(2), ())]]),
        ("exponential", "DistExp(1/(x + 1))", [[(F(1), V("x")), (F(1), ())]]),
        ("exponential", "DistExp(2/(x + y + 1))", [[(F(1, 2), V("x")), (F(1, 2), V("y")), (F(1, 2), ())]]),
        ("exponential", "DistExp(3/(y + 1))", [[(F(1, 3), V("y")), (F(1, 3), ())]]),
        # lower bounds / locations that print as several terms (the rewriting splices them into a text)
        ("uniform", "Uniform(x + 1, x + 3)", [[(F(1), V("x")), (F(1), ())], [(F(1), V("x")), (F(3), ())]]),
        ("uniform", "Uniform(x - y - 1, x + y + 1)", [[(F(1), V("x")), (F(-1), V("y")), (F(-1), ())], [(F(1), V("x")), (F(1), V("y")), (F(1), ())]]),
        ("uniform", "Uniform(2*x - 1, 2*x + y)", [[(F(2), V("x")), (F(-1), ())], [(F(2), V("x")), (F(1), V("y"))]]),
        ("laplace", "Laplace(x - y - 1, y + x + 1)", [[(F(1), V("x")), (F(-1), V("y")), (F(-1), ())], [(F(1), V("y")), (F(1), V("x")), (F(1), ())]]),
    ]
    prefixes = [
        ("x = 0\ny = 1\n", "    x = Bernoulli(1/2)\n    y = DiscreteUniform(0, 2)\n",
         [("assign", "x", [(F(1), [])], ("true",), "x"), ("assign", "y", [(F(1), [(F(1), ())])], ("true",), "y")],
         [("draw", "x", ("bernoulli", F(1, 2)), ("true",), "x"), ("draw", "y", ("duniform", 0, 2), ("true",), "y")]),
        ("x = 1\ny = 0\n", "    x = 1 - x {1/3} x\n    y = Bernoulli(1/4)\n",
         [("assign", "x", [(F(1), [(F(1), ())])], ("true",), "x"), ("assign", "y", [(F(1), [])], ("true",), "y")],
         [("assign", "x", [(F(1, 3), [(F(1), ()), (F(-1), V("x"))]), (F(2, 3), [(F(1), V("x"))])], ("true",), "x"),
          ("draw", "y", ("bernoulli", F(1, 4)), ("true",), "y")]),
    ]
    i = 0
    for fam, text, params in shapes:
        for init_t, body_t, init_a, body_a in prefixes:
            src = f"{init_t}z = 0\nwhile true:\n{body_t}    z = {text}\nend\n"
            P = {"vars": ["x", "y", "z"], "s0": {}, "guard": ("true",),
                 "init": init_a + [("assign", "z", [(F(1), [])], ("true",), "z")], "body": body_a}
            goalmap = {"z": (1, [(F(1), ())]), "z**2": (2, [(F(1), ())]), "z**3": (3, [(F(1), ())]),
                       "x*z": (1, [(F(1), V("x"))]), "y*z**2": (2, [(F(1), V("y"))])}
            # finding D17: a Normal variance that mentions a program variable
            meta = {"finding": "D17"} if fam == "normal" and any(m for c, m in params[1]) else {}
            items.append({"id": f"cd{i}", "text": src, "T": None, "P": P, "fam": fam, "params_polys": params,
                          "goalmap": goalmap, "goals": list(goalmap), "points": [{}], "origin": f"cdraw {text}",
                          "meta": meta})
            i += 1
    sel = items if not quick else [it for i, it in enumerate(items) if i % 2 == 0 or i % 4 == 1 or "Laplace(x, y + 1)" in it["text"]
                                   or "Uniform(x + 1" in it["text"] or "Uniform(2*x - 1" in it["text"]]
    # the same draws inside a branch: z = 5 first, redrawn only if x == 1 (x in {0, 1}); the location/scale rewriting must
    # keep the branch condition
    guarded = []
    for fam, text, params in shapes:
        if fam == "normal" and any(m for c, m in params[1]):
            continue                     # D17 shapes stay in the unguarded part
        init_t, body_t, init_a, body_a = prefixes[0]
        src = f"{init_t}z = 0\nwhile true:\n{body_t}    z = 5\n    if x == 1:\n        z = {text}\n    end\nend\n"
        P = {"vars": ["x", "y", "z"], "s0": {}, "guard": ("true",),
             "init": init_a + [("assign", "z", [(F(1), [])], ("true",), "z")], "body": body_a}
        goalmap = {"z": (1, [(F(1), ())]), "z**2": (2, [(F(1), ())]), "x*z": (1, [(F(1), V("x"))]), "y*z**2": (2, [(F(1), V("y"))])}
        guarded.append({"id": f"cdg{len(guarded)}", "text": src, "T": None, "P": P, "fam": fam, "params_polys": params,
                        "goalmap": goalmap, "goals": list(goalmap), "points": [{}], "origin": f"guarded cdraw {text}",
                        "meta": {}, "guard_var": "x", "else_value": F(5)})
    return sel + (guarded if not quick else guarded[::2] + guarded[1:2])


def main(tier, seed):
    quick = tier == "quick"
    rng = random.Random(seed)
    holder = {}

    def post(ctx):
        return table_part(ctx["run"], quick)
    items = cdraw_items(rng, quick)
    return analysis_check("C08", tier, seed, items=items, want=["moments"], builders=[b_cdraw], N=3, post=post, timeout=150,
                          assumptions=["continuous families: the reference moments are the families' integration-by-parts recurrences transcribed into spec/Dists.tla, not the defining integrals",
                                       "TruncNormal moments (erf) are not decided; its support and samples are",
                                       "rewriting part: the draw is the last statement of the body and is not read afterwards"])
