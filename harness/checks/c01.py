"""C01: closed-form moments equal the exact expectations at every n.

code -> spec trace validation: Polar's closed form for every goal monomial, evaluated at n = 0..N and at
every parameter point exactly the way the CLI evaluates --at_n, is bound to Moment(goal, dist) of
spec/LoopDist.tla at every step of the behaviour of spec/LoopTrace.tla.
"""
import random
from fractions import Fraction as F

from .. import absyn, campaign as C, pool
from ..report import Run


def build_traces(items, results, N, claim_builder=None):
    traces, meta, notes = [], {}, {"undef": 0, "free": [], "skipped_goal_exc": 0, "unsupported": 0,
                                   "refused": 0, "approx": 0, "other": 0}
    for it in items:
        res = results.get(it["id"])
        if res is None or res.get("stage"):
            notes["refused"] += 1
            continue
        for pi, pt in enumerate(res["points_used"]):
            P = C.source_program(it, res, pi)
            if P is None:
                notes["unsupported"] += 1
                continue
            Nt = N
            if it.get("T") is not None:
                from .. import gen
                Nt = min(N, gen.horizon(it["T"])[0])
            steps = [[] for _ in range(Nt + 1)]
            nclaims = 0
            for g, go in res["goals"].items():
                if "values" not in go:
                    notes["skipped_goal_exc"] += 1
                    continue
                poly = absyn.mono_of(g)
                if any(v not in P["vars"] for v, _ in poly[0][1]):
                    continue
                for n, val in enumerate(go["values"][pi][:Nt + 1]):
                    cl, why = C.val_claims("mom", val, {"pi": 1, "poly": poly, "tag": g})
                    if cl is None:
                        if why == "free":
                            notes["free"].append((it["id"], g, n, val))
                        elif why == "undef":
                            notes["undef"] += 1
                        else:
                            notes["other"] += 1
                        continue
                    if cl["t"] == "momI":
                        notes["approx"] += 1
                    steps[n].append(cl)
                    nclaims += 1
            if nclaims == 0:
                continue
            tid = f"{it['id']}-p{pi}"
            traces.append({"id": tid, "vars": P["vars"], "progs": [P], "N": Nt, "steps": steps})
            meta[tid] = (it, pi)
    return traces, meta, notes


def describe_failure(it, res, pi, tr, fail, D):
    from ..encode import dec_r
    cl = tr["steps"][fail["n"]][fail["i"] - 1] if fail["i"] > 0 else {"t": fail["t"]}
    got = fail.get("got")
    try:
        gotv = str(dec_r(got, D)) if isinstance(got, dict) and "m" in got else json_safe(got)
    except Exception:
        gotv = json_safe(got)
    return {"program": it["text"], "origin": it.get("origin"), "point": res["points_used"][pi],
            "goal": cl.get("tag"), "n": fail["n"], "clause": fail["t"],
            "polar_value": str(cl.get("val", cl.get("lo"))), "semantics_value": gotv,
            "closed_form": res["goals"].get(cl.get("tag"), {}).get("closed_form") if cl.get("tag") else None}


def json_safe(x):
    import json
    try:
        json.dumps(x)
        return x
    except Exception:
        return str(x)


def main(tier, seed):
    run = Run("C01", "model_checking", tier, seed)
    quick = run.tier == "quick"
    N = 6 if quick else 9
    items = C.corpus_files()
    bench = C.benchmark_files()
    rng = random.Random(run.seed)
    if quick:
        rng.shuffle(bench)
        bench = bench[:25]
    items += bench
    items += C.generated(run.seed, 70 if quick else 400, maxdeg=2 if quick else 3, ngoals=6 if quick else 9)
    jobs = C.make_jobs(items, ["parsed", "moments"], N, timeout=120 if quick else 300)
    results = pool.run_jobs(jobs)
    traces, meta, notes = build_traces(items, results, N)
    verdicts, stats, errors = C.run_tlc(traces)
    by_id = {t["id"]: t for t in traces}
    jobs_by_id = {j["id"]: j for j in jobs}

    nfail = 0
    confirmed = 0
    decided_all_n = 0
    for tid, v in verdicts.items():
        it, pi = meta[tid]
        res = results[it["id"]]
        if v["closedAt"] >= 0:
            # finite chain: order bound argument of DESIGN.md section 6(A)
            dims = [len(go.get("recs", {}).get("monomials", [])) for go in res["goals"].values()]
            if v["steps"] >= v["reach"] + 12:
                decided_all_n += 1
        if not v["fails"]:
            continue
        nfail += 1
        # confirm in a fresh process (a history effect must not masquerade as a C01 violation)
        fresh = pool.run_fresh(jobs_by_id[it["id"]])
        ftr, fmeta, _ = build_traces([it], {it["id"]: fresh}, N)
        ftr = [t for t in ftr if t["id"] == tid]
        if not ftr:
            run.error(f"{tid}: violation not reproducible in a fresh process (no trace)")
            continue
        fv, _, ferr = C.run_tlc(ftr, workers=2)
        if tid not in fv or not fv[tid]["fails"]:
            run.error(f"{tid}: violation disappeared in a fresh process (history dependence? see C20)")
            continue
        confirmed += 1
        f0 = fv[tid]["fails"][0]
        detail = describe_failure(it, fresh, pi, ftr[0], f0, fv[tid]["D"])
        detail["all_failing"] = sorted({(ftr[0]["steps"][f["n"]][f["i"] - 1].get("tag"), f["n"])
                                        for f in fv[tid]["fails"] if f["i"] > 0})[:40]
        run.violation({it["id"], f"{it['id']}:{detail['goal']}"} | set(it.get("meta", {}).get("finding", "").split()), detail)
    for (iid, g, n, val) in notes["free"][:50]:
        it = next(i for i in items if i["id"] == iid)
        run.violation({iid, f"{iid}:{g}"}, {"program": it["text"], "goal": g, "n": n, "clause": "free-symbol",
                                             "polar_value": val})
    for tid, e in errors.items():
        if "not encodable" in e:
            notes["unsupported"] += 1
        else:
            run.error(f"{tid}: {e}")

    samples = []
    for tid in list(verdicts)[:3]:
        it, pi = meta[tid]
        res = results[it["id"]]
        samples.append({"trace": tid, "program": it["text"], "point": res["points_used"][pi],
                        "goals": {g: [v.get("q", v) for v in go["values"][pi]] for g, go in res["goals"].items() if "values" in go},
                        "verdict": {k: verdicts[tid][k] for k in ("steps", "reach", "closedAt", "support")}})
    nclaims = sum(len(s) for t in traces for s in t["steps"])
    coverage = {
        "states": stats["distinct"], "transitions": stats["states"],
        "traces_validated_against_impl": len(verdicts),
        "samples": samples,
        "programs": len(items), "programs_accepted_by_polar": sum(1 for i in items if not results.get(i["id"], {}).get("stage")),
        "refused_or_unsupported": notes["refused"] + notes["unsupported"],
        "moment_claims_checked": nclaims, "claims_undefined_at_point": notes["undef"],
        "claims_via_enclosure": notes["approx"], "N": N,
        "traces_with_failures": nfail, "confirmed_in_fresh_process": confirmed,
        "finite_chain_traces": sum(1 for v in verdicts.values() if v["closedAt"] >= 0),
        "exhaustive": False,
    }
    return run.finish(coverage, [
        "TLC 1.8 and CommunityModules Json/FiniteSetsExt; spec/Exact.tla (self-tested against native arithmetic)",
        "sympy evaluates Polar's closed form at integer n and rational parameter points (utils.eval_re, as --at_n does)",
        "for repository benchmark files the source program given to the spec is Polar's own parse (parser judged by C19); for generated programs it is the generator's abstract program",
        "parameter values are sampled (2 points per program), n is bounded by N",
    ])
