"""C01: closed-form moments equal the exact expectations at every n.

code -> spec trace validation: Polar's closed form for every goal monomial, evaluated at n = 0..N and at
every parameter point exactly the way the CLI evaluates --at_n, is bound (clause `mom') to
Moment(goal, dist) of spec/LoopDist.tla at every step of the behaviour of spec/LoopTrace.tla.
The program given to the spec is the generator's abstract program (generated programs) or Polar's parse
(repository files, parser judged by C19); never anything derived from Polar's normalisation."""
from .. import campaign as C
from ..driver import analysis_check, standard_items

CONFIG = dict(want=["parsed", "moments", "recs", "cont"], builders=[C.b_source, C.b_moments])


def main(tier, seed):
    import random
    from fractions import Fraction as F
    from .. import progspace
    quick = tier == "quick"
    items = standard_items(seed, tier, 20 if quick else 80, 80, bench_quick=10)
    # spec -> code: programs enumerated by TLC (spec/ProgSpace.tla) with their exact moment sequences
    ps_items, ps_cov = progspace.items(2 if quick else 3, 4, sample=20 if quick else 600, rng=random.Random(seed))
    items += ps_items
    # Normal / Uniform / Laplace draws with state-dependent location (decided through moment-matched finite laws)
    items += C.generated(seed + 11, 6 if quick else 30, profile={"cont": True, "params": False, "sym_init": False}, ngoals=4, prefix="genk")

    def post(ctx):
        run = ctx["run"]
        compared = mismatches = 0
        for suffix, results in ctx["results"].items():
            for it in ps_items:
                r = results.get(it["id"], {})
                for g, go in (r.get("goals") or {}).items():
                    if "values" not in go:
                        continue
                    for n, val in enumerate(go["values"][0][:5]):
                        if "q" not in val:
                            continue
                        compared += 1
                        if F(val["q"]) != it["spec_values"][g][n]:
                            mismatches += 1
                            run.violation({it["id"], f"{it['id']}:{g}"},
                                          {"clause": "replay of a TLC-enumerated program: value differs from the specification's",
                                           "program": it["text"], "goal": g, "n": n, "polar_value": val["q"],
                                           "spec_value": str(it["spec_values"][g][n])})
        from .. import abstraction
        abs_cov = abstraction.part(run, tier, seed, "mom")
        return dict(ps_cov, progspace_values_compared=compared, progspace_mismatches=mismatches, **abs_cov)
    return analysis_check("C01", tier, seed, items=items, N=6 if quick else 7,
                          timeout=100 if quick else 300, post=post, N_ext=25, **CONFIG)


def replay(path):
    from ..driver import replay_analysis
    return replay_analysis("C01", path, want=["parsed", "moments"], builders=[C.b_source, C.b_moments], N=6)
