"""C01: closed-form moments equal the exact expectations at every n.

code -> spec trace validation: Polar's closed form for every goal monomial, evaluated at n = 0..N and at
every parameter point exactly the way the CLI evaluates --at_n, is bound (clause `mom') to
Moment(goal, dist) of spec/LoopDist.tla at every step of the behaviour of spec/LoopTrace.tla.
The program given to the spec is the generator's abstract program (generated programs) or Polar's parse
(repository files, parser judged by C19); never anything derived from Polar's normalisation."""
from .. import campaign as C
from ..driver import analysis_check, standard_items

CONFIG = dict(want=["parsed", "moments"], builders=[C.b_source, C.b_moments])


def main(tier, seed):
    items = standard_items(seed, tier, 45, 400, bench_quick=20)
    return analysis_check("C01", tier, seed, items=items, N=6 if tier == "quick" else 9,
                          timeout=100 if tier == "quick" else 300, **CONFIG)


def replay(path):
    from ..driver import replay_analysis
    return replay_analysis("C01", path, want=["parsed", "moments"], builders=[C.b_source, C.b_moments], N=6)
