"""C12: the simulator follows the same semantics and laws as the exact analysis.

code -> spec: Simulator.simulate runs with scripted random sources (random.choices / random.choice /
scipy bernoulli replaced by a logging script); a depth-first enumeration drives it through EVERY resolution
of its random calls.  Each run (choice events with the weights the simulator handed to its random source,
guard decisions, store after every iteration) must be a behaviour of the path machine spec/LoopSem.tla;
after all runs of a program the runs must be pairwise distinct and their weights, grouped by final store,
must equal the distribution of the lifted machine LoopDist (induced distribution, not sample means).
spec -> code: TLC generates behaviours of LoopSem ("gen" mode, simulation), the harness forces the scripted
source along their choices and compares the store after every iteration.
Samplers: see C08/C12 sampler clause in harness/checks/c08.py (call convention and support)."""
import json
import os
import random
import shutil
import subprocess
import tempfile
from fractions import Fraction as F

from .. import absyn, campaign as C, encode as E, gen, pool, tlc
from ..report import Run

TOL = F(1, 10 ** 12)


def enc_event(ev):
    ws = [F(w) for w in ev["weights"]]
    tot = sum(ws)
    p = ws[ev["idx"]] / tot if tot else F(0)
    return {"i": ev["idx"] + 1, "lo": E.frac_claim(p - TOL), "hi": E.frac_claim(p + TOL)}


def enc_events(evs):
    return [enc_event(e) for e in evs if len(e["weights"]) > 1 or e["kind"] != "choices"]


def enc_state(st, vars_):
    # a variable the simulator has not assigned yet is absent from its state; the specification starts it at 0
    return [E.frac_claim(F(st.get(v, 0))) for v in vars_]


def encode_sim_trace(tid, P, N, runs, complete):
    enc = E.Encoder(P["vars"])
    D = E.choose_D(list(enc.numbers_prog(P)))
    runs_e = []
    for rn in runs:
        runs_e.append({"init": {"ch": enc_events(rn["init"]["ch"]), "state": enc_state(rn["init"]["state"], P["vars"])},
                       "iters": [{"guard": it["guard"], "ch": enc_events(it["ch"]), "state": enc_state(it["state"], P["vars"])}
                                 for it in rn["iters"]]})
    return D, {"id": tid, "prog": enc.prog(P, D), "N": N, "complete": complete, "runs": runs_e}


def run_loopsem(by_D, mode, run, simulate_args=None):
    verdicts, out_lines = {}, []
    states = distinct = 0
    for D, encs in sorted(by_D.items()):
        work = tempfile.mkdtemp(prefix="verif-sem-")
        try:
            batch = os.path.join(work, "batch.json")
            outdir = os.path.join(work, "out")
            os.mkdir(outdir)
            json.dump({"D": D, "mode": mode, "traces": encs}, open(batch, "w"))
            env = dict(os.environ, BATCH_FILE=batch, OUT_DIR=outdir)
            cmd = ["java", "-XX:+UseParallelGC", "-Xmx8g", "-Xss64m", "-cp", tlc.TLC_CP, "tlc2.TLC"]
            if simulate_args:
                cmd += ["-simulate", simulate_args, "-workers", "1"]
            else:
                cmd += ["-workers", "16"]
            cmd += ["-metadir", os.path.join(work, "meta"), "-noGenerateSpecTE", "-config",
                    os.path.join(tlc.SPEC_DIR, "LoopSem.cfg"), os.path.join(tlc.SPEC_DIR, "LoopSem.tla")]
            p = subprocess.run(cmd, cwd=tlc.SPEC_DIR, env=env, capture_output=True, text=True, timeout=3000)
            m = tlc._STATS_RE.search(p.stdout)
            if m:
                states += int(m.group(1))
                distinct += int(m.group(2))
            if (p.returncode != 0 and not simulate_args) or ("Error:" in p.stdout and "@@RUN" not in p.stdout and not m):
                run.error(f"TLC LoopSem D={D} mode={mode}: {p.stdout[-1500:]}")
                continue
            out_lines += [l for l in p.stdout.splitlines() if l.startswith('"@@RUN ')]
            for e in encs:
                vf = os.path.join(outdir, e["id"] + ".json")
                if os.path.exists(vf):
                    verdicts[e["id"]] = dict(json.load(open(vf)), D=D)
        finally:
            shutil.rmtree(work, ignore_errors=True)
    return verdicts, out_lines, states, distinct


def continuous_programs():
    """programs with continuous draws whose parameters depend on the state, each with its derandomised abstract
    program: with numpy's primitive generators replaced by the constant z a draw is loc + scale*z, hence a
    deterministic polynomial assignment (Normal(m, s**2) -> m + s*z for s >= 0, Uniform(a, b) -> a + (b - a)*z,
    Laplace(m, b) -> m + b*z, Exponential(1/m) -> m*z, Gamma(k, t) -> t*z)"""
    ONE = ()

    def V(v, e=1):
        return ((v, e),)

    def asg(v, poly, cond=("true",)):
        return ("assign", v, [(F(1), poly)], cond, v)

    def prog(vars_, init, body):
        return {"vars": sorted(vars_), "s0": {}, "guard": ("true",), "init": [asg(v, ([(F(c), ONE)] if c else [])) for v, c in init], "body": body}
    out = []

    def add(name, text, build):
        out.append((name, text, build))
    add("normal_loc_and_scale", "s = 1\nx = 0\nwhile true:\n    s = 2*s\n    x = Normal(s, s**2)\nend\n",
        lambda z: prog(["s", "x"], [("s", 1), ("x", 0)], [asg("s", [(F(2), V("s"))]), asg("x", [(1 + z, V("s"))])]))
    add("normal_constant_mean_growing_variance", "s = 1\nx = 0\ny = 0\nwhile true:\n    s = 2*s\n    x = Normal(3, s**2)\n    y = y + x\nend\n",
        lambda z: prog(["s", "x", "y"], [("s", 1), ("x", 0), ("y", 0)],
                       [asg("s", [(F(2), V("s"))]), asg("x", [(F(3), ONE), (z, V("s"))]), asg("y", [(F(1), V("y")), (F(1), V("x"))])]))
    add("uniform_moving_interval", "a = 0\nx = 0\nwhile true:\n    a = a + 1\n    x = Uniform(a, 3*a)\nend\n",
        lambda z: prog(["a", "x"], [("a", 0), ("x", 0)], [asg("a", [(F(1), V("a")), (F(1), ONE)]), asg("x", [(1 + 2 * z, V("a"))])]))
    add("laplace_scale_and_location", "b = 1\nx = 0\ny = 0\nwhile true:\n    b = 2*b\n    x = Laplace(1, b)\n    y = Laplace(b, 2)\nend\n",
        lambda z: prog(["b", "x", "y"], [("b", 1), ("x", 0), ("y", 0)],
                       [asg("b", [(F(2), V("b"))]), asg("x", [(F(1), ONE), (z, V("b"))]), asg("y", [(F(1), V("b")), (2 * z, ONE)])]))
    add("exponential_rate", "m = 1\nx = 0\nwhile true:\n    m = 2*m\n    x = DistExp(1/m)\nend\n",
        lambda z: prog(["m", "x"], [("m", 1), ("x", 0)], [asg("m", [(F(2), V("m"))]), asg("x", [(z, V("m"))])]))
    add("gamma_scale", "t = 1\nx = 0\nwhile true:\n    t = 2*t\n    x = Gamma(2, t)\nend\n",
        lambda z: prog(["t", "x"], [("t", 1), ("x", 0)], [asg("t", [(F(2), V("t"))]), asg("x", [(z, V("t"))])]))
    fcond = ("atom", [(F(1), V("f"))], "==", [(F(1), ONE)])
    add("normal_in_branch", "f = 0\nx = 0\nwhile true:\n    f = Bernoulli(1/2)\n    if f == 1:\n        x = Normal(x, 4)\n    else:\n        x = x - 1\n    end\nend\n",
        lambda z: prog(["f", "x"], [("f", 0), ("x", 0)],
                       [("draw", "f", ("bernoulli", F(1, 2)), ("true",), "f"),
                        ("if", [fcond], [[asg("x", [(F(1), V("x")), (2 * z, ONE)])]], [asg("x", [(F(1), V("x")), (F(-1), ONE)])])]))
    return out


def main(tier, seed):
    run = Run("C12", "model_checking", tier, seed)
    quick = run.tier == "quick"
    N = 3 if quick else 4
    profile = {"dyadic_values": True, "params": False, "sym_init": False}
    items = []
    i = -1
    want_n = 10 if quick else 100
    while len(items) < want_n:
        i += 1
        s = run.seed * 7919 + i
        g = gen.Gen(s, profile)
        T, params = g.gen()
        if gen.paths(T["body"]) ** N * max(1, gen.paths(T["init"])) > 2500:
            continue
        items.append({"id": f"sim-{run.seed}-{i}", "text": gen.render(T), "T": T})
    # probabilistic initial blocks (a choice, and a choice nested in an if)
    ONE = ()
    Tp = {"vars": ["x", "y", "z"], "s0": {}, "guard": ("true",),
          "init": [("assign", "x", [(F(1, 2), []), (F(1, 2), [(F(1), ONE)])], ("true",), "x"),
                   ("assign", "y", [(F(1), [])], ("true",), "y"),
                   ("if", [("atom", [(F(1), (("x", 1),))], "==", [(F(1), ONE)])],
                    [[("assign", "z", [(F(1, 4), [(F(2), ONE)]), (F(3, 4), [(F(3), ONE)])], ("true",), "z")]],
                    [("assign", "z", [(F(1), [])], ("true",), "z")])],
          "body": [("assign", "y", [(F(1, 2), [(F(1), (("y", 1),)), (F(1), (("x", 1),))]), (F(1, 2), [(F(1), (("y", 1),)), (F(1), (("z", 1),))])],
                    ("true",), "y")]}
    items.insert(0, {"id": "sim-probinit", "text": gen.render(Tp), "T": Tp})
    for path in sorted(os.listdir(os.path.join(C.VERIF, "corpus"))):
        meta_text = open(os.path.join(C.VERIF, "corpus", path)).read()
        if "#@ simulate: yes" in meta_text:
            items.append({"id": "simcorpus-" + path[:-5], "text": meta_text, "T": None})
    # deterministic programs can be followed much longer (one path): large values, float comparisons
    DET = [("doubling_eq", "x = 1\ny = 0\nf = 0\nwhile true:\n    x = 2*x\n    y = x + 1\n    if x == y:\n        f = 1\n    end\nend\n", 45),
           ("guard_neq", "a = 1\nb = 3\nwhile !(a == b):\n    a = 4*a\n    b = 4*b - 8\nend\n", 20),
           ("halving", "x = 1024\nc = 0\nwhile x > 1/1024:\n    x = x/2\n    c = c + 1\nend\n", 30)]
    for name, text, n_det in DET:
        items.append({"id": "simdet-" + name, "text": text, "T": None, "N": n_det})
    # variables first assigned inside branches, in an order that depends on the path (no initial block)
    lazy_goals = [("_g1", "x - y", [(F(1), (("x", 1),)), (F(-1), (("y", 1),))]), ("_g2", "x*y + c", [(F(1), (("x", 1), ("y", 1))), (F(1), (("c", 1),))]),
                  ("_g3", "x", [(F(1), (("x", 1),))])]
    items.append({"id": "simlazy-order", "T": None, "N": 3, "lazy_goals": lazy_goals,
                  "text": "t = 0\nwhile true:\n    c = Bernoulli(1/2)\n    if t == 0:\n        if c == 1:\n            x = 1\n            y = 0\n        else:\n            y = 1\n            x = 0\n        end\n        t = 1\n    else:\n        if c == 1:\n            x = x + 1\n        else:\n            y = y + 1\n        end\n    end\nend\n"})
    items[-1]["sim_goals"] = [[n_, g] for n_, g, _p in lazy_goals]
    # goals handed to the simulator: the result object evaluates them on every state; in the specification they are
    # auxiliary variables assigned at the end of the initial block and of the body
    for it in items:
        if it["T"] is not None and len(it["T"]["vars"]) >= 1:
            vs = [v for v in it["T"]["vars"] if not v.startswith("_")]
            a, b = vs[0], vs[-1]
            gl = [("_g1", f"{a}*{b}", [(F(1), ((a, 1), (b, 1)) if a != b else ((a, 2),))]),
                  ("_g2", f"{a} - 2*{b} + 1" if a != b else f"1 - {a}", ([(F(1), ((a, 1),)), (F(-2), ((b, 1),)), (F(1), ())] if a != b else [(F(1), ()), (F(-1), ((a, 1),))])),
                  ("_g3", a, [(F(1), ((a, 1),))])]
            it["sim_goals"] = [[n_, g] for n_, g, _p in gl]
            T2 = dict(it["T"])
            aux = [("assign", n_, [(F(1), p_)], ("true",), n_) for n_, _g, p_ in gl]
            T2["vars"] = list(it["T"]["vars"]) + [n_ for n_, _g, _p in gl]
            T2["init"] = list(it["T"]["init"]) + aux
            T2["body"] = list(it["T"]["body"]) + aux
            it["T_goals"] = T2
    jobs = [{"kind": "simulate", "id": it["id"], "text": it["text"], "N": it.get("N", N), "want": ["parsed"], "max_runs": 3000,
             "timeout": 240, "sim_goals": it.get("sim_goals", [])} for it in items]
    results = pool.run_jobs(jobs, per_job_timeout=240)
    # continuous samplers: every draw must be location + scale * primitive for the parameters of the CURRENT state
    cont_items, cont_jobs = [], []
    for name, text, build in continuous_programs():
        for z in (F(0), F(1, 2), F(2)):
            it = {"id": f"simcont-{name}-z{z.numerator}_{z.denominator}", "text": text, "T": build(z), "N": 4, "z": str(z)}
            cont_items.append(it)
            cont_jobs.append({"kind": "simulate", "id": it["id"], "text": text, "N": 4, "want": [], "max_runs": 200, "timeout": 120,
                              "fake_z": str(z)})
    results.update(pool.run_jobs(cont_jobs, per_job_timeout=120, fresh_each=True))
    items += cont_items
    by_D, meta = {}, {}
    n_runs = 0
    for it in items:
        res = results.get(it["id"], {})
        if "runs" not in res:
            run.error(f"{it['id']}: simulator job failed: {res.get('stage')} {res.get('msg', '')[:200]}")
            continue
        bad_runs = [r for r in res["runs"] if "exc" in r]
        if bad_runs:
            run.violation({it["id"]}, {"program": it["text"], "clause": "simulator raised on a parseable program",
                                       "run": bad_runs[0]})
            continue
        P = gen.instantiate(it.get("T_goals") or it["T"], {}) if it["T"] is not None else absyn.prog(res["parsed"][0])
        if it.get("lazy_goals"):
            aux = [("assign", n_, [(F(1), p_)], ("true",), n_) for n_, _g, p_ in it["lazy_goals"]]
            P = dict(P, vars=list(P["vars"]) + [n_ for n_, _g, _p in it["lazy_goals"]], init=list(P["init"]) + aux, body=list(P["body"]) + aux)
        try:
            D, enc = encode_sim_trace(it["id"], P, it.get("N", N), res["runs"], res["complete"])
        except (E.NotDadic, KeyError) as ex:
            run.error(f"{it['id']}: cannot encode runs: {ex}")
            continue
        n_runs += len(res["runs"])
        by_D.setdefault(D, []).append(enc)
        meta[it["id"]] = it
    verdicts, _, states, distinct = run_loopsem(by_D, "trace", run)
    nfail = 0
    for tid, it in meta.items():
        v = verdicts.get(tid)
        if v is None:
            run.error(f"{tid}: no verdict")
            continue
        if v["fails"]:
            nfail += 1
            run.violation({tid}, {"program": it["text"], "failures": json.loads(json.dumps(v["fails"][:5], default=str)),
                                  "runs": v["runs"], "paths": v["paths"]})

    # ---- all validated runs of the lazily initialising program again in ONE call of simulate (goal values of several
    # samples are processed together): the states must be the ones validated run by run
    lz = next((it for it in items if it["id"] == "simlazy-order"), None)
    lres = results.get("simlazy-order", {}) if lz else {}
    if lz and "runs" in lres and not any("exc" in r_ for r_ in lres["runs"]):
        scripts = [[e["idx"] for grp in [r_["init"]["ch"]] + [i_["ch"] for i_ in r_["iters"]] for e in grp
                    if len(e["weights"]) > 1 or e["kind"] != "choices"] for r_ in lres["runs"]]
        oj = {"kind": "simulate", "id": "simlazy-onecall", "text": lz["text"], "N": lz["N"], "scripts_sparse": scripts, "one_call": True,
              "sim_goals": lz["sim_goals"], "timeout": 120}
        ores = pool.run_jobs([oj], per_job_timeout=150).get("simlazy-onecall", {})
        if "runs" not in ores or len(ores["runs"]) != len(lres["runs"]) or any("exc" in r_ for r_ in ores["runs"]):
            run.violation({"simlazy-order"}, {"program": lz["text"], "clause": "several samples in one simulate call: simulator raised / lost samples",
                                              "runs": ores.get("runs", [])[:2]})
        else:
            for r1, r2 in zip(lres["runs"], ores["runs"]):
                seq1 = [r1["init"]["state"]] + [i_["state"] for i_ in r1["iters"]]
                if [{k: F(v) for k, v in s_.items()} for s_ in seq1] != [{k: F(v) for k, v in s_.items()} for s_ in r2["states"]]:
                    run.violation({"simlazy-order"}, {"program": lz["text"], "clause": "several samples in one simulate call: states / goal values differ from the run validated alone",
                                                      "alone": seq1, "together": r2["states"]})
                    break

    # ---- spec -> code: behaviours generated by TLC replayed into the simulator
    gen_items = [it for it in items if it["T"] is not None and not it["id"].startswith("simcont-")][: (12 if quick else 60)]
    gby_D = {}
    for it in gen_items:
        P = gen.instantiate(it["T"], {})
        enc = E.Encoder(P["vars"])
        D = E.choose_D(list(enc.numbers_prog(P)))
        gby_D.setdefault(D, []).append({"id": it["id"], "prog": enc.prog(P, D), "N": N})
    _, lines, gstates, gdistinct = run_loopsem(gby_D, "gen", run, simulate_args=f"num={60 if quick else 400}")
    behaviours = {}
    for l in lines:
        d = json.loads(json.loads(l)[len("@@RUN "):])
        behaviours.setdefault(d["id"], []).append(d)
    replay_jobs = []
    expect = {}
    for it in gen_items:
        bs = behaviours.get(it["id"], [])[:25]
        if not bs:
            continue
        P = gen.instantiate(it["T"], {})
        scripts = []
        for b in bs:
            scripts.append(b)
        # the spec's events leave out deterministic assignments; the script for the simulator needs an index for
        # every random call, so deterministic calls (one option) are filled in by the scripted source itself:
        # pass the spec's indices and let single-option calls consume none of them
        replay_jobs.append({"kind": "simulate", "id": "replay-" + it["id"], "text": it["text"], "N": N,
                            "scripts_sparse": [[e["i"] - 1 for h in b["hist"] for e in h["ch"]] for b in bs], "timeout": 200})
        expect["replay-" + it["id"]] = (it, P, bs)
    # the same behaviours again, all in ONE call of simulate (several samples per call)
    for j in list(replay_jobs):
        replay_jobs.append(dict(j, id=j["id"] + "-onecall", one_call=True))
        expect[j["id"] + "-onecall"] = expect[j["id"]]
    rres = pool.run_jobs(replay_jobs, per_job_timeout=200) if replay_jobs else {}
    replayed = replay_bad = 0
    for jid, (it, P, bs) in expect.items():
        res = rres.get(jid, {})
        if "runs" not in res:
            run.error(f"{jid}: replay job failed {res.get('stage')}")
            continue
        D = E.choose_D(list(E.Encoder(P["vars"]).numbers_prog(P)))
        if jid.endswith("-onecall"):
            if len(res["runs"]) != len(bs) or any("exc" in rn for rn in res["runs"]):
                replay_bad += 1
                run.violation({it["id"]}, {"program": it["text"], "clause": "replay in one simulate call: simulator raised / lost samples",
                                           "runs": res["runs"][:2]})
                continue
            for b, rn in zip(bs, res["runs"]):
                replayed += 1
                spec_states = [[str(E.dec_r(x["a"], D)) for x in h["s"]] for h in b["hist"]]
                sim_states = [[str(F(st[v])) for v in P["vars"]] for st in rn["states"]]
                if spec_states != sim_states:
                    replay_bad += 1
                    run.violation({it["id"]}, {"program": it["text"], "clause": "replay in one simulate call: stores differ",
                                               "spec": spec_states, "simulator": sim_states})
                    break
            continue
        for b, rn in zip(bs, res["runs"]):
            replayed += 1
            if "exc" in rn:
                replay_bad += 1
                run.violation({it["id"]}, {"program": it["text"], "clause": "replay: simulator raised", "run": rn})
                continue
            spec_states = [[str(E.dec_r(x["a"], D)) for x in h["s"]] for h in b["hist"]]
            sim_states = [[str(F(rn["init"]["state"][v])) for v in P["vars"]]] + \
                         [[str(F(itr["state"][v])) for v in P["vars"]] for itr in rn["iters"]]
            if spec_states != sim_states:
                replay_bad += 1
                run.violation({it["id"]}, {"program": it["text"], "clause": "replay: stores differ",
                                           "spec": spec_states, "simulator": sim_states,
                                           "choices": [[e["i"] for e in h["ch"]] for h in b["hist"]]})
    coverage = {"states": distinct + gdistinct, "transitions": states + gstates,
                "traces_validated_against_impl": len(verdicts),
                "samples": [{"program": meta[t]["text"], "runs": v["runs"], "paths": v["paths"], "support": v["support"]}
                            for t, v in list(verdicts.items())[:3]],
                "programs": len(items), "simulator_runs_validated": n_runs,
                "programs_with_failures": nfail, "N": N,
                "spec_behaviours_replayed": replayed, "replay_mismatches": replay_bad, "exhaustive": True}
    return run.finish(coverage, [
        "programs use integer and dyadic constants so that the simulator's floats are exact; probabilities may be "
        "arbitrary rationals and are compared with a 1e-12 tolerance after normalisation by the total weight",
        "all resolutions of the random calls are enumerated (every option with positive weight) up to N iterations",
    ])
