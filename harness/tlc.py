"""Runs spec/LoopTrace.tla over batches of traces and collects the verdicts."""
import json
import os
import re
import shutil
import subprocess
import tempfile
import time
from fractions import Fraction

from . import encode as E

SPEC_DIR = os.path.join(os.path.dirname(os.path.dirname(os.path.abspath(__file__))), "spec")
TLC_CP = "/opt/veriftools/tla/tla2tools.jar:/opt/veriftools/tla/CommunityModules-deps.jar"


class TlcError(Exception):
    pass


def _claim_numbers(enc, cl):
    for key in ("poly", "lhs", "rhsp", "pa", "pb", "ep"):
        if key in cl:
            yield from enc.numbers_poly(cl[key])
    if "cond" in cl:
        yield from enc.numbers_cond(cl["cond"])
    if cl["t"] == "rec":
        for c, m in cl["rhs"]:
            yield from E.as_dual(c)
            yield from enc.numbers_poly(m)
        yield from E.as_dual(cl["k"])
    if cl["t"] == "recpts":
        for eq in cl["eqs"]:
            yield from enc.numbers_poly(eq["lhs"])
            yield from enc.numbers_poly(eq["rhsp"])
    if "goals" in cl:
        for g in cl["goals"]:
            yield from enc.numbers_poly(g["poly"])
    if cl["t"] == "cdraw":
        for pp in cl["params"]:
            yield from enc.numbers_poly(pp)
        if cl["fam"] == "uniform":
            for j in range(2, cl["k"] + 2):
                yield Fraction(1, j)
    if "thr" in cl:
        yield from E.as_dual(cl["thr"])
    if "vals" in cl:
        for v in cl["vals"]:
            yield Fraction(v)
        yield from E.as_dual(cl["start"])


def _enc_claim(enc, cl, D):
    out = {"t": cl["t"]}
    for key in ("pi", "a", "b", "k", "undef", "part", "tag", "lag"):
        if key in cl and not (key == "k" and cl["t"] == "rec"):
            out[key] = cl[key]
    for key in ("poly", "lhs", "rhsp", "pa", "pb", "ep"):
        if key in cl:
            out[key] = enc.poly(cl[key], D)
    if "cond" in cl:
        out["cond"] = enc.cond(cl["cond"], D)
    if "val" in cl:
        out.update(E.frac_claim(cl["val"]))
    if "lo" in cl:
        out["lo"] = E.frac_claim(cl["lo"])
        out["hi"] = E.frac_claim(cl["hi"])
    if cl["t"] == "rec":
        out["rhs"] = [{"c": E.enc_s(c, D), "m": enc.poly(m, D)} for c, m in cl["rhs"]]
        out["k"] = E.enc_s(cl["k"], D)
    if cl["t"] == "cdraw":
        out["fam"] = cl["fam"]
        out["params"] = [enc.poly(pp, D) for pp in cl["params"]]
    if "goals" in cl:
        out["goals"] = [{"kind": g["kind"], "k": g.get("k", 0), "poly": enc.poly(g["poly"], D)} for g in cl["goals"]]
    if cl["t"] == "inv":
        out["terms"] = [{"c": E.enc_z(c), "e": [int(x) for x in e]} for c, e in cl["terms"]]
    if cl["t"] == "recpts":
        out["eqs"] = [{"lhs": enc.poly(eq["lhs"], D), "rhsp": enc.poly(eq["rhsp"], D)} for eq in cl["eqs"]]
    if "thr" in cl:
        out["thr"] = E.enc_s(cl["thr"], D)
    if cl["t"] == "supp":
        out["v"] = enc.idx[cl["v"]]
        out["vals"] = [E.enc_s(v, D) for v in cl["vals"]]
        out["start"] = E.enc_s(cl["start"], D)
        out["exempt"] = bool(cl.get("exempt", True))
    if cl["t"] == "equiv":
        out["va"] = [enc.idx[v] for v in cl["va"]]
        out["vb"] = [enc.idx[v] for v in cl["vb"]]
    if cl["t"] in ("cmom",) and "undef" not in out:
        out["undef"] = 0
    if cl["t"] == "cmom" and "lag" not in out:
        out["lag"] = 0
    if cl["t"] == "cmom" and "val" not in cl:
        out.update(E.frac_claim(0))
    return out


def encode_trace(tr):
    """returns (D, json-ready trace).  Raises encode.NotDadic if numbers do not fit."""
    enc = E.Encoder(tr["vars"])
    nums = []
    for P in tr["progs"]:
        nums.extend(enc.numbers_prog(P))
    for st in tr["steps"]:
        for cl in st:
            nums.extend(_claim_numbers(enc, cl))
    D = E.choose_D(nums)
    if "D" in tr:
        D = tr["D"]
    out = {"id": tr["id"], "N": tr["N"],
           "progs": [enc.prog(P, D) for P in tr["progs"]],
           "steps": [[_enc_claim(enc, cl, D) for cl in st] for st in tr["steps"]]}
    assert len(out["steps"]) == tr["N"] + 1, "one claim list per n = 0..N"
    return D, out


_STATS_RE = re.compile(r"(\d+) states generated, (\d+) distinct states found")


def run_batches(traces, workers=16, timeout=1500, keep=None, heap="8g", max_support=4000, chunk=60):
    """traces: python-form traces.  Returns (verdicts by id, stats, errors by id)"""
    by_D = {}
    errors = {}
    for tr in traces:
        try:
            D, enc = encode_trace(tr)
        except E.NotDadic as ex:
            errors[tr["id"]] = f"not encodable: {ex}"
            continue
        by_D.setdefault(D, []).append(enc)
    verdicts = {}
    stats = {"states": 0, "distinct": 0, "tlc_runs": 0, "tlc_wall_s": 0.0, "D": sorted(by_D)}
    chunks = []
    for D, encs_all in sorted(by_D.items()):
        for i in range(0, len(encs_all), chunk):               # a TLC run that runs out of time loses one chunk at most
            chunks.append((D, encs_all[i:i + chunk]))
    for D, encs in chunks:
        work = tempfile.mkdtemp(prefix="verif-tlc-")
        try:
            batch = os.path.join(work, "batch.json")
            outdir = os.path.join(work, "out")
            os.mkdir(outdir)
            with open(batch, "w") as f:
                json.dump({"D": D, "maxSupport": max_support, "traces": encs}, f)
            env = dict(os.environ, BATCH_FILE=batch, OUT_DIR=outdir)
            cmd = ["java", "-XX:+UseParallelGC", f"-Xmx{heap}", "-Xss64m", "-cp", TLC_CP, "tlc2.TLC",
                   "-workers", str(workers), "-metadir", os.path.join(work, "meta"),
                   "-noGenerateSpecTE", "-config", os.path.join(SPEC_DIR, "LoopTrace.cfg"),
                   os.path.join(SPEC_DIR, "LoopTrace.tla")]
            t0 = time.time()
            try:
                p = subprocess.run(cmd, cwd=SPEC_DIR, env=env, capture_output=True, text=True, timeout=timeout)
            except subprocess.TimeoutExpired:
                stats["tlc_wall_s"] += time.time() - t0
                stats["tlc_runs"] += 1
                for e in encs:
                    vf = os.path.join(outdir, e["id"] + ".json")
                    if os.path.exists(vf):
                        with open(vf) as f:
                            v = json.load(f)
                        v["D"] = D
                        verdicts[e["id"]] = v
                    else:
                        errors[e["id"]] = "tlc timeout: no verdict within the time limit (not judged)"
                continue
            stats["tlc_wall_s"] += time.time() - t0
            stats["tlc_runs"] += 1
            m = _STATS_RE.search(p.stdout)
            if m:
                stats["states"] += int(m.group(1))
                stats["distinct"] += int(m.group(2))
            if p.returncode != 0 or not m:
                if keep:
                    shutil.copy(batch, keep)
                raise TlcError(f"TLC exit {p.returncode} for D={D}:\n{p.stdout[-3000:]}\n{p.stderr[-1000:]}")
            for e in encs:
                vf = os.path.join(outdir, e["id"] + ".json")
                if os.path.exists(vf):
                    with open(vf) as f:
                        v = json.load(f)
                    v["D"] = D
                    verdicts[e["id"]] = v
                else:
                    errors[e["id"]] = "no verdict written (trace not accepted to its end)"
        finally:
            shutil.rmtree(work, ignore_errors=True)
    return verdicts, stats, errors


def run_spec(module, payload, workers=8, timeout=3000, xmx="6g"):
    """run spec/<module>.tla with spec/<module>.cfg on one JSON batch; returns (ok, generated, distinct, verdicts by
    file name, stdout tail)"""
    import shutil
    import tempfile
    work = tempfile.mkdtemp(prefix="verif-spec-")
    try:
        batch = os.path.join(work, "batch.json")
        outdir = os.path.join(work, "out")
        os.mkdir(outdir)
        json.dump(payload, open(batch, "w"))
        cmd = ["java", "-XX:+UseParallelGC", "-Xmx" + xmx, "-Xss64m", "-cp", TLC_CP, "tlc2.TLC", "-workers", str(workers), "-metadir",
               os.path.join(work, "meta"), "-noGenerateSpecTE", "-config", os.path.join(SPEC_DIR, module + ".cfg"),
               os.path.join(SPEC_DIR, module + ".tla")]
        p = subprocess.run(cmd, cwd=SPEC_DIR, env=dict(os.environ, BATCH_FILE=batch, OUT_DIR=outdir), capture_output=True,
                           text=True, timeout=timeout)
        m = _STATS_RE.search(p.stdout)
        verdicts = {}
        for fn in os.listdir(outdir):
            try:
                verdicts[fn[:-5]] = json.load(open(os.path.join(outdir, fn)))
            except Exception:
                pass
        ok = p.returncode == 0 and bool(m)
        err = ""
        if not ok:
            i = p.stdout.find("Error:")
            err = p.stdout[max(0, i - 200):i + 1500] if i >= 0 else p.stdout[-2000:]
        return ok, (int(m.group(1)) if m else 0), (int(m.group(2)) if m else 0), verdicts, err
    finally:
        shutil.rmtree(work, ignore_errors=True)
