"""Evidence files, replay files, known findings and the VIOLATION / KNOWN-FINDING protocol."""
import hashlib
import json
import os
import sys
import time

VERIF = os.path.dirname(os.path.dirname(os.path.abspath(__file__)))
EVID = os.environ.get("VERIF_EVIDENCE_DIR") or os.path.join(VERIF, "evidence")
REPLAY = os.path.join(EVID, "replay")
KNOWN = os.path.join(VERIF, "known_findings.json")


def load_known():
    if not os.path.exists(KNOWN):
        return []
    with open(KNOWN) as f:
        return json.load(f)["findings"]


class Run:
    def __init__(self, pid, level, tier=None, seed=None):
        self.pid = pid
        self.level = level
        self.tier = tier or os.environ.get("VERIF_TIER", "quick")
        self.seed = int(seed if seed is not None else os.environ.get("VERIF_SEED", "0"))
        self.t0 = time.time()
        self.violations = []
        self.known_hits = []
        self.known = [k for k in load_known() if (k.get("property") == pid or pid in k.get("properties", [])) and k.get("status") == "open"]
        self.machinery_errors = []
        os.makedirs(REPLAY, exist_ok=True)

    def match_known(self, keys):
        """keys: set of strings identifying the failing input; a known finding lists such keys"""
        for k in self.known:
            if set(k.get("keys", [])) & set(keys):
                return k
        return None

    def violation(self, keys, detail):
        """a confirmed violation.  keys identify the failing input (witness ids / input signatures)."""
        k = self.match_known(keys)
        if k is not None:
            self.known_hits.append((k, detail))
            return
        h = hashlib.sha1(json.dumps(detail, sort_keys=True, default=str).encode()).hexdigest()[:12]
        path = os.path.join(REPLAY, f"{self.pid}-{h}.json")
        with open(path, "w") as f:
            json.dump({"property": self.pid, "keys": sorted(keys), "detail": detail}, f, indent=1, default=str)
        self.violations.append(path)

    def error(self, msg):
        self.machinery_errors.append(msg)

    def finish(self, coverage, assumptions=None):
        seen = set()
        for k, detail in self.known_hits:
            if k["id"] in seen:
                continue
            seen.add(k["id"])
            print(f"KNOWN-FINDING: property={self.pid} {k['id']}: {k['what']}")
        for path in self.violations:
            print(f"VIOLATION property={self.pid} replay={path}")
        ev = {"property_id": self.pid, "tier": self.tier, "seed": self.seed, "level": self.level,
              "coverage": coverage, "assumptions": assumptions or [],
              "wall_s": round(time.time() - self.t0, 2), "violations": len(self.violations),
              "known_findings_seen": sorted(seen)}
        os.makedirs(EVID, exist_ok=True)
        with open(os.path.join(EVID, f"{self.pid}.json"), "w") as f:
            json.dump(ev, f, indent=1, default=str)
        if self.machinery_errors:
            for m in self.machinery_errors[:20]:
                print("MACHINERY-ERROR:", m, file=sys.stderr)
        if self.violations:
            return 1
        return 2 if self.machinery_errors else 0
