"""Runs Polar worker jobs in subprocesses with hard per-job timeouts.

A worker process takes jobs one at a time over a pipe; the parent enforces the deadline of every single
job by killing the process (Polar can hang inside C extension code where no signal handler runs) and
starts a new worker for the remaining jobs.
"""
import json
import os
import queue
import subprocess
import threading
import time

VERIF = os.path.dirname(os.path.dirname(os.path.abspath(__file__)))
PY = "/venv/bin/python"


class _Worker:
    def __init__(self, repo, module="harness.polar_worker", hashseed=None):
        env = dict(os.environ, POLAR_REPO=repo, POLAR_VERIF="1", POLAR_WORKER_STREAM="1",
                   PYTHONHASHSEED=str(hashseed if hashseed is not None else os.environ.get("PYTHONHASHSEED", "0")))
        self.p = subprocess.Popen([PY, "-m", module], cwd=VERIF, env=env, stdin=subprocess.PIPE,
                                  stdout=subprocess.PIPE, stderr=subprocess.DEVNULL, text=True, bufsize=1)
        self.q = queue.Queue()
        self.t = threading.Thread(target=self._reader, daemon=True)
        self.t.start()

    def _reader(self):
        try:
            for line in self.p.stdout:
                if line.startswith("@@RESULT "):
                    self.q.put(line[len("@@RESULT "):])
        except Exception:
            pass
        self.q.put(None)

    def run(self, job, timeout):
        try:
            self.p.stdin.write(json.dumps(job) + "\n")
            self.p.stdin.flush()
        except Exception:
            return None
        try:
            line = self.q.get(timeout=timeout)
        except queue.Empty:
            return "timeout"
        if line is None:
            return None
        return json.loads(line)

    def close(self):
        try:
            self.p.kill()
        except Exception:
            pass
        try:
            self.p.wait(timeout=5)
        except Exception:
            pass


def run_jobs(jobs, repo=None, nproc=15, per_job_timeout=120, fresh_each=False, module="harness.polar_worker",
             hashseed=None):
    """returns {job id: result}; every job runs under a hard deadline (its 'timeout' + 15 s)."""
    repo = repo or os.environ.get("POLAR_REPO", "/repo")
    todo = queue.Queue()
    for j in jobs:
        j.setdefault("timeout", per_job_timeout)
        todo.put(j)
    results = {}
    lock = threading.Lock()

    def loop():
        w = None
        while True:
            try:
                j = todo.get_nowait()
            except queue.Empty:
                break
            if w is None:
                w = _Worker(repo, module, hashseed)
            r = w.run(j, j["timeout"] + 15)
            if r == "timeout":
                r = {"id": j["id"], "stage": "timeout", "hard": True}
                w.close()
                w = None
            elif r is None:
                r = {"id": j["id"], "stage": "crash"}
                w.close()
                w = None
            elif fresh_each:
                w.close()
                w = None
            with lock:
                results[j["id"]] = r
        if w is not None:
            w.close()

    threads = [threading.Thread(target=loop) for _ in range(min(nproc, max(1, len(jobs))))]
    for t in threads:
        t.start()
    for t in threads:
        t.join()
    return results


def run_fresh(job, repo=None, per_job_timeout=300, module="harness.polar_worker", hashseed=None):
    """one job in its own fresh process (used to confirm any disagreement)"""
    j = dict(job)
    j.setdefault("timeout", per_job_timeout)
    return run_jobs([j], repo=repo, nproc=1, fresh_each=True, module=module, hashseed=hashseed)[j["id"]]
