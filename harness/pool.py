"""Runs Polar worker jobs in subprocesses with hard timeouts."""
import json
import os
import subprocess
import sys
from concurrent.futures import ThreadPoolExecutor

VERIF = os.path.dirname(os.path.dirname(os.path.abspath(__file__)))
PY = "/venv/bin/python"


def _run_chunk(chunk, repo, per_job_timeout):
    env = dict(os.environ, POLAR_REPO=repo, POLAR_VERIF="1", PYTHONHASHSEED=os.environ.get("PYTHONHASHSEED", "0"))
    for j in chunk:
        j.setdefault("timeout", per_job_timeout)
    total = sum(j["timeout"] for j in chunk) + 60
    out = {}
    try:
        p = subprocess.run([PY, "-m", "harness.polar_worker"], input=json.dumps(chunk), cwd=VERIF, env=env,
                           capture_output=True, text=True, timeout=total)
        stdout = p.stdout
        stderr = p.stderr
    except subprocess.TimeoutExpired as ex:
        stdout = ex.stdout.decode() if isinstance(ex.stdout, bytes) else (ex.stdout or "")
        stderr = "chunk timeout"
    for line in stdout.splitlines():
        if line.startswith("@@RESULT "):
            r = json.loads(line[len("@@RESULT "):])
            out[r["id"]] = r
    missing = [j for j in chunk if j["id"] not in out]
    return out, missing, stderr


def run_jobs(jobs, repo=None, nproc=14, chunk=6, per_job_timeout=120):
    """returns {job id: result}.  Jobs that crash the worker or hang are retried alone once."""
    repo = repo or os.environ.get("POLAR_REPO", "/repo")
    chunks = [jobs[i:i + chunk] for i in range(0, len(jobs), chunk)]
    results = {}
    retry = []
    with ThreadPoolExecutor(max_workers=nproc) as ex:
        for out, missing, err in ex.map(lambda c: _run_chunk(c, repo, per_job_timeout), chunks):
            results.update(out)
            retry.extend(missing)
        singles = [[j] for j in retry]
        for (out, missing, err), c in zip(ex.map(lambda c: _run_chunk(c, repo, per_job_timeout), singles), singles):
            results.update(out)
            for j in missing:
                results[j["id"]] = {"id": j["id"], "stage": "crash", "msg": (err or "")[-500:]}
    return results


def run_fresh(job, repo=None, per_job_timeout=300):
    """one job in its own fresh process (used to confirm any disagreement)"""
    out, missing, err = _run_chunk([dict(job)], repo or os.environ.get("POLAR_REPO", "/repo"), per_job_timeout)
    if missing:
        return {"id": job["id"], "stage": "crash", "msg": (err or "")[-500:]}
    return out[job["id"]]
