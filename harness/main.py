import argparse
import importlib
import os
import sys


def main():
    ap = argparse.ArgumentParser()
    ap.add_argument("pid")
    ap.add_argument("--tier", default=os.environ.get("VERIF_TIER", "quick"))
    ap.add_argument("--seed", type=int, default=int(os.environ.get("VERIF_SEED", "0")))
    ap.add_argument("--replay")
    ap.add_argument("--selftest", action="store_true")
    a = ap.parse_args()
    os.environ["VERIF_TIER_EFFECTIVE"] = a.tier
    mod = importlib.import_module(f"harness.checks.{a.pid.lower()}")
    if a.replay:
        if hasattr(mod, "replay"):
            sys.exit(mod.replay(a.replay))
        print(open(a.replay).read()[:4000])
        print("this check has no single-input replay; re-running its quick tier")
        sys.exit(mod.main("quick", a.seed))
    if a.selftest:
        sys.exit(mod.selftest())
    sys.exit(mod.main(a.tier, a.seed))


if __name__ == "__main__":
    main()
