"""Conversion of worker-exported programs (JSON lists, 'p/q' strings) into encode.py's abstract syntax."""
from fractions import Fraction


def _is_number(x):
    try:
        Fraction(x)
        return True
    except (ValueError, ZeroDivisionError):
        return False


def sc(x):
    if isinstance(x, list):
        return (Fraction(x[0]), Fraction(x[1]))
    return Fraction(x)


def poly(p):
    return [(sc(c), tuple((v, int(e)) for v, e in mono)) for c, mono in p]


def cond(c):
    t = c[0]
    if t in ("true", "false"):
        return (t,)
    if t == "atom":
        return ("atom", poly(c[1]), c[2], poly(c[3]))
    if t in ("and", "or"):
        return (t, cond(c[1]), cond(c[2]))
    if t == "not":
        return ("not", cond(c[1]))
    raise ValueError(t)


def dist(d):
    if d[0] == "bernoulli":
        return ("bernoulli", sc(d[1]))
    if d[0] == "categorical":
        return ("categorical", [sc(p) for p in d[1]])
    if d[0] == "duniform":
        return ("duniform", int(d[1]), int(d[2]))
    if d[0] == "finite":
        return ("finite", [(sc(x), sc(p)) for x, p in d[1]])
    if d[0] in ("normal", "laplace"):
        return (d[0], poly(d[1]), sc(d[2]))
    if d[0] == "uniform":
        return ("uniform", poly(d[1]), poly(d[2]))
    raise ValueError(d[0])


def stmts(ss):
    out = []
    for s in ss:
        if s[0] == "assign":
            out.append(("assign", s[1], [(sc(p), poly(e)) for p, e in s[2]], cond(s[3]), s[4]))
        elif s[0] == "draw":
            out.append(("draw", s[1], dist(s[2]), cond(s[3]), s[4]))
        elif s[0] == "func":
            arg = s[3] if not _is_number(s[3]) else Fraction(s[3])
            out.append(("func", s[1], s[2], arg, cond(s[4]), s[5]))
        elif s[0] == "if":
            out.append(("if", [cond(c) for c in s[1]], [stmts(b) for b in s[2]], stmts(s[3])))
        else:
            raise ValueError(s[0])
    return out


def prog(P):
    return {"vars": list(P["vars"]), "s0": {k: sc(v) for k, v in P["s0"].items()},
            "init": stmts(P["init"]), "guard": cond(P["guard"]), "body": stmts(P["body"])}


def mono_of(s):
    """'x**2*y' -> poly with one term (coefficient 1)"""
    s = s.replace(" ", "")
    if s in ("1", ""):
        return [(Fraction(1), ())]
    m = []
    for f in s.split("*"):
        pass
    # split on single '*' but not '**'
    parts, cur, i = [], "", 0
    while i < len(s):
        if s[i] == "*" and s[i:i + 2] == "**":
            cur += "**"
            i += 2
        elif s[i] == "*":
            parts.append(cur)
            cur = ""
            i += 1
        else:
            cur += s[i]
            i += 1
    parts.append(cur)
    for f in parts:
        if "**" in f:
            v, e = f.split("**")
            m.append((v, int(e)))
        else:
            m.append((f, 1))
    return [(Fraction(1), tuple(m))]


# ---- continuous draws replaced by finitely supported laws with the same moments ------------------------------

class NotAffine(ValueError):
    pass


def _scale_for(c, lo, hi):
    """power of two r with c / r**2 in [lo, hi]"""
    r = Fraction(1)
    while c / (r * r) > hi:
        r *= 2
    while c / (r * r) < lo:
        r /= 2
    return r


def surrogate(kind, scale_param, order=5):
    """standardised finite law (list of (value, probability)) whose moments of order 0..order (3 or 5) equal those of
    normal: N(0, c) with c = scale_param;  uniform: U(0, 1);  laplace: Laplace(0, b) with b = scale_param.
    Nodes are rational; the weights solve the moment equations (odd moments vanish by symmetry)."""
    if order <= 3:
        if kind == "uniform":
            return [(Fraction(0), Fraction(1, 6)), (Fraction(1, 2), Fraction(2, 3)), (Fraction(1), Fraction(1, 6))]   # Simpson
        m2 = Fraction(scale_param) if kind == "normal" else 2 * Fraction(scale_param) ** 2
        a = _scale_for(m2, Fraction(1, 4), Fraction(1))       # m2 / a^2 in [1/4, 1]
        w = m2 / (2 * a * a)
        return [(x, p) for x, p in ((-a, w), (Fraction(0), 1 - 2 * w), (a, w)) if p > 0]
    if kind == "uniform":
        # Boole's rule: exact for polynomials of degree <= 5
        return [(Fraction(i, 4), Fraction(w, 90)) for i, w in enumerate((7, 32, 12, 32, 7))]
    if kind == "normal":
        c = Fraction(scale_param)
        r = _scale_for(c, Fraction(1, 3), Fraction(4, 3))
        t = c / (r * r)                                  # nodes 0, +-r, +-2r: m2 = c, m4 = 3 c^2
        w2 = (3 * t * t - t) / 24
        w1 = (4 * t - 3 * t * t) / 6
        nodes = [(-2 * r, w2), (-r, w1), (Fraction(0), 1 - 2 * (w1 + w2)), (r, w1), (2 * r, w2)]
    elif kind == "laplace":
        b = Fraction(scale_param)
        r = _scale_for(b * b, Fraction(1, 4), Fraction(1))
        t = b * b / (r * r)                              # nodes 0, +-r, +-4r: m2 = 2 b^2, m4 = 24 b^4
        w2 = (12 * t * t - t) / 240
        w1 = (16 * t - 12 * t * t) / 15
        nodes = [(-4 * r, w2), (-r, w1), (Fraction(0), 1 - 2 * (w1 + w2)), (r, w1), (4 * r, w2)]
    else:
        raise ValueError(kind)
    assert all(w >= 0 for _, w in nodes) and sum(w for _, w in nodes) == 1, (kind, scale_param, nodes)
    return [(x, w) for x, w in nodes if w > 0]


def _pmul(p, q):
    out = {}
    for c1, m1 in p:
        for c2, m2 in q:
            d = dict(m1)
            for v, e in m2:
                d[v] = d.get(v, 0) + e
            key = tuple(sorted(d.items()))
            out[key] = out.get(key, 0) + c1 * c2
    return [(c, m) for m, c in out.items() if c != 0]


def prog_cont(P, order=5):
    """exported program with normal / uniform / laplace draws -> abstract program with surrogate draws"""
    return surrogate_program(prog(P), order)


def has_cont(P):
    def w(ss):
        for s in ss:
            if s[0] == "draw" and s[2][0] in ("normal", "uniform", "laplace"):
                return True
            if s[0] == "if" and (any(w(b) for b in s[2]) or w(s[3])):
                return True
            if s[0] == "simul" and w(s[1]):
                return True
        return False
    return w(P["init"]) or w(P["body"])


def surrogate_program(A, order=5):
    """abstract program in which every normal / uniform / laplace draw is replaced by  v = location + scale * c  for a
    fresh finitely supported c (see surrogate).  Sound for expectations of monomials of total degree <= order provided
    every variable is affine in the continuous draws and no condition reads them; raises NotAffine otherwise."""
    counter = [0]
    aux = []

    def conv(ss):
        out = []
        for s in ss:
            if s[0] == "draw" and s[2][0] in ("normal", "uniform", "laplace"):
                counter[0] += 1
                c = f"_c{counter[0]}"
                aux.append(c)
                d = s[2]
                one = [(Fraction(1), ())]
                if d[0] == "normal":
                    law, loc, scl = surrogate("normal", Fraction(d[2]), order), list(d[1]), one
                elif d[0] == "laplace":
                    law, loc, scl = surrogate("laplace", Fraction(d[2]), order), list(d[1]), one
                else:
                    law, loc, scl = surrogate("uniform", None, order), list(d[1]), list(d[2]) + [(-c0, m) for c0, m in d[1]]
                out.append(("draw", c, ("finite", law), ("true",), c))
                out.append(("assign", s[1], [(Fraction(1), _pnorm(loc + _pmul(scl, [(Fraction(1), ((c, 1),))])))], s[3], s[4]))
            elif s[0] == "if":
                out.append(("if", list(s[1]), [conv(b) for b in s[2]], conv(s[3])))
            else:
                out.append(s)
        return out
    Q = {"vars": list(A["vars"]), "s0": dict(A["s0"]), "init": conv(A["init"]), "guard": A["guard"], "body": conv(A["body"])}
    Q["vars"] += aux
    _check_affine(Q, set(aux))
    Q["order"] = 5 if order > 3 else 3
    return Q


def _pnorm(p):
    out = {}
    for c, m in p:
        key = tuple(sorted(m))
        out[key] = out.get(key, 0) + c
    return [(c, m) for m, c in out.items() if c != 0]


def _check_affine(Q, aux):
    tainted = set(aux)

    def cvars(c):
        if c[0] == "atom":
            return {v for _, m in c[1] for v, _ in m} | {v for _, m in c[3] for v, _ in m}
        if c[0] in ("and", "or"):
            return cvars(c[1]) | cvars(c[2])
        if c[0] == "not":
            return cvars(c[1])
        return set()

    def walk(ss):
        changed = False
        for s in ss:
            if s[0] == "assign":
                for _p, e in s[2]:
                    for _c, m in e:
                        if sum(k for v, k in m if v in tainted) > 1:
                            raise NotAffine(f"{s[1]} is not affine in the continuous draws")
                        if any(v in tainted for v, _k in m) and s[1] not in tainted:
                            tainted.add(s[1])
                            changed = True
                if (s[4] in tainted) and s[1] not in tainted:
                    tainted.add(s[1])
                    changed = True
                if cvars(s[3]) & tainted:
                    raise NotAffine("a condition reads a continuous variable")
            elif s[0] == "draw":
                if cvars(s[3]) & tainted:
                    raise NotAffine("a condition reads a continuous variable")
            elif s[0] == "if":
                for c in s[1]:
                    if cvars(c) & tainted:
                        raise NotAffine("a condition reads a continuous variable")
                for b in list(s[2]) + [s[3]]:
                    changed |= walk(b)
            elif s[0] == "func":
                raise NotAffine("functional assignment")
            elif s[0] == "simul":
                changed |= walk([it for it in s[1] if it[0] == "assign"])
                if any(it[0] != "assign" for it in s[1]):
                    raise NotAffine("draw inside a simultaneous assignment")
        return changed
    for _ in range(len(Q["vars"]) + 2):
        a = walk(Q["init"])
        b = walk(Q["body"])
        if not (a or b):
            break
    if cvars(Q["guard"]) & tainted:
        raise NotAffine("the guard reads a continuous variable")
    Q["tainted"] = sorted(tainted)
