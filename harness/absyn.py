"""Conversion of worker-exported programs (JSON lists, 'p/q' strings) into encode.py's abstract syntax."""
from fractions import Fraction


def _is_number(x):
    try:
        Fraction(x)
        return True
    except (ValueError, ZeroDivisionError):
        return False


def sc(x):
    if isinstance(x, list):
        return (Fraction(x[0]), Fraction(x[1]))
    return Fraction(x)


def poly(p):
    return [(sc(c), tuple((v, int(e)) for v, e in mono)) for c, mono in p]


def cond(c):
    t = c[0]
    if t in ("true", "false"):
        return (t,)
    if t == "atom":
        return ("atom", poly(c[1]), c[2], poly(c[3]))
    if t in ("and", "or"):
        return (t, cond(c[1]), cond(c[2]))
    if t == "not":
        return ("not", cond(c[1]))
    raise ValueError(t)


def dist(d):
    if d[0] == "bernoulli":
        return ("bernoulli", sc(d[1]))
    if d[0] == "categorical":
        return ("categorical", [sc(p) for p in d[1]])
    if d[0] == "duniform":
        return ("duniform", int(d[1]), int(d[2]))
    if d[0] == "finite":
        return ("finite", [(sc(x), sc(p)) for x, p in d[1]])
    raise ValueError(d[0])


def stmts(ss):
    out = []
    for s in ss:
        if s[0] == "assign":
            out.append(("assign", s[1], [(sc(p), poly(e)) for p, e in s[2]], cond(s[3]), s[4]))
        elif s[0] == "draw":
            out.append(("draw", s[1], dist(s[2]), cond(s[3]), s[4]))
        elif s[0] == "func":
            arg = s[3] if not _is_number(s[3]) else Fraction(s[3])
            out.append(("func", s[1], s[2], arg, cond(s[4]), s[5]))
        elif s[0] == "if":
            out.append(("if", [cond(c) for c in s[1]], [stmts(b) for b in s[2]], stmts(s[3])))
        else:
            raise ValueError(s[0])
    return out


def prog(P):
    return {"vars": list(P["vars"]), "s0": {k: sc(v) for k, v in P["s0"].items()},
            "init": stmts(P["init"]), "guard": cond(P["guard"]), "body": stmts(P["body"])}


def mono_of(s):
    """'x**2*y' -> poly with one term (coefficient 1)"""
    s = s.replace(" ", "")
    if s in ("1", ""):
        return [(Fraction(1), ())]
    m = []
    for f in s.split("*"):
        pass
    # split on single '*' but not '**'
    parts, cur, i = [], "", 0
    while i < len(s):
        if s[i] == "*" and s[i:i + 2] == "**":
            cur += "**"
            i += 2
        elif s[i] == "*":
            parts.append(cur)
            cur = ""
            i += 1
        else:
            cur += s[i]
            i += 1
    parts.append(cur)
    for f in parts:
        if "**" in f:
            v, e = f.split("**")
            m.append((v, int(e)))
        else:
            m.append((f, 1))
    return [(Fraction(1), tuple(m))]
