"""Random generator of loop programs (abstract syntax of encode.py) and their rendering as Polar source text.

The generator's abstract program is the ground truth for the meaning of the text it renders; nothing
here knows how Polar works.  Programs aim at the documented class (README "Loop Restrictions"):
conditions/guards only over finitely valued variables, constant probabilities, non-linear dependencies
acyclic.  Refusals by Polar are not failures of the generator.
"""
import random
from fractions import Fraction as F

ONE = ()


def V(v, e=1):
    return ((v, e),)


def const(c):
    return [(F(c), ONE)] if F(c) != 0 else []


def padd(p, q):
    acc = {}
    for c, m in list(p) + list(q):
        m = tuple(sorted(m))
        acc[m] = acc.get(m, 0) + c
    return [(c, m) for m, c in acc.items() if c != 0]


def pscale(p, k):
    return [(c * k, m) for c, m in p if c * k != 0]


def pmul(p, q):
    acc = {}
    for c1, m1 in p:
        for c2, m2 in q:
            d = dict(m1)
            for v, e in m2:
                d[v] = d.get(v, 0) + e
            m = tuple(sorted(d.items()))
            acc[m] = acc.get(m, 0) + c1 * c2
    return [(c, m) for m, c in acc.items() if c != 0]


# ------------------------------------------------------------------------------------------------
# rendering

def rnum(c, style=0):
    c = F(c)
    if c.denominator == 1:
        return str(c.numerator)
    if style == 1 and c.denominator in (2, 4, 5, 8, 10, 20, 25) and abs(c) < 1000:
        s = repr(float(c))
        if F(s) == c:
            return s
    if c.denominator > 1000 and set(_prime_factors(c.denominator)) <= {2, 5}:
        # a long terminating decimal stays a decimal literal in every style
        digits = 0
        d = c.denominator
        while (10 ** digits) % d:
            digits += 1
        return ("-" if c < 0 else "") + f"{abs(c.numerator) * 10 ** digits // d:0{digits + 1}d}"[:-digits] + "." + \
            f"{abs(c.numerator) * 10 ** digits // d:0{digits + 1}d}"[-digits:]
    return f"{c.numerator}/{c.denominator}"


def _prime_factors(n):
    out, p = [], 2
    while p * p <= n:
        while n % p == 0:
            out.append(p)
            n //= p
        p += 1
    if n > 1:
        out.append(n)
    return out


def rmono(m):
    return "*".join(v if e == 1 else f"{v}**{e}" for v, e in m)


def rpoly(p, style=0, sym=None):
    """sym: dict Fraction-coefficient-id -> symbolic text (not used); coefficients are numbers"""
    if not p:
        return "0"
    out = ""
    for i, (c, m) in enumerate(p):
        if isinstance(c, str):
            cs, neg = c, False
        else:
            neg = c < 0
            cs = rnum(abs(c), style)
        if m:
            if cs == "1":
                body = rmono(m)
            else:
                body = cs + "*" + rmono(m)
        else:
            body = cs
        if i == 0:
            out += ("-" if neg else "") + body
        else:
            out += (" - " if neg else " + ") + body
    return out


def rcond(c, style=0):
    t = c[0]
    if t == "true":
        return "true"
    if t == "false":
        return "false"
    if t == "atom":
        return f"{rpoly(c[1], style)} {c[2]} {rpoly(c[3], style)}"
    if t == "and":
        return f"({rcond(c[1], style)}) && ({rcond(c[2], style)})"
    if t == "or":
        return f"({rcond(c[1], style)}) || ({rcond(c[2], style)})"
    if t == "not":
        return f"!({rcond(c[1], style)})"
    raise ValueError(t)


def rdist(d, style=0):
    if d[0] == "bernoulli":
        return f"Bernoulli({rscalar(d[1], style)})"
    if d[0] == "categorical":
        return "Categorical(" + ", ".join(rscalar(p, style) for p in d[1]) + ")"
    if d[0] == "duniform":
        return f"DiscreteUniform({d[1]}, {d[2]})"
    if d[0] == "normal":
        return f"Normal({rpoly(d[1], style) or '0'}, {rscalar(d[2], style)})"
    if d[0] == "uniform":
        return f"Uniform({rpoly(d[1], style) or '0'}, {rpoly(d[2], style) or '0'})"
    if d[0] == "laplace":
        return f"Laplace({rpoly(d[1], style) or '0'}, {rscalar(d[2], style)})"
    raise ValueError(d[0])


def rscalar(x, style=0):
    if isinstance(x, str):
        return x
    return rnum(x, style)


def rrhs(s, style=0, explicit_last=False):
    if s[0] == "draw":
        return rdist(s[2], style)
    br = s[2]
    if len(br) == 1:
        return rpoly(br[0][1], style)
    out = ""
    for i, (p, e) in enumerate(br):
        pe = rpoly(e, style)
        if len(e) > 1:
            pe = pe  # categorical alternatives are full arithm expressions
        out += pe
        if i < len(br) - 1 or explicit_last:
            out += " {" + rscalar(p, style) + "} "
    return out.rstrip()


def rstmts(stmts, ind, style=0, explicit_last=False):
    lines = []
    pad = " " * ind
    for s in stmts:
        if s[0] in ("assign", "draw"):
            lines.append(f"{pad}{s[1]} = {rrhs(s, style, explicit_last)}")
        elif s[0] == "simul":
            lines.append(pad + ", ".join(i[1] for i in s[1]) + " = " + ", ".join(rrhs(i, style, explicit_last) for i in s[1]))
        elif s[0] == "if":
            for i, (c, b) in enumerate(zip(s[1], s[2])):
                lines.append(f"{pad}{'if' if i == 0 else 'elif'} {rcond(c, style)}:")
                lines += rstmts(b, ind + 4, style, explicit_last)
            if s[3]:
                lines.append(f"{pad}else:")
                lines += rstmts(s[3], ind + 4, style, explicit_last)
            lines.append(f"{pad}end")
    return lines


def render(P, style=0, explicit_last=False, types=None):
    lines = []
    if types:
        lines.append("types")
        for v, vals in types.items():
            lines.append(f"    {v} : Finite({', '.join(rnum(x) for x in vals)})")
        lines.append("end")
    lines += rstmts(P["init"], 0, style, explicit_last)
    lines.append(f"while {rcond(P['guard'], style)}:")
    lines += rstmts(P["body"], 4, style, explicit_last)
    lines.append("end")
    return "\n".join(lines) + "\n"


# ------------------------------------------------------------------------------------------------
# symbolic parameters: the abstract program carries Fractions; the text carries names.  A program with
# parameters is generated as a *template*: scalars may be ("par", name, a, b) meaning a*name + b.

def inst_scalar(x, point):
    if isinstance(x, tuple) and x and x[0] == "par":
        return x[2] * F(point[x[1]]) + x[3]
    return x


def text_scalar(x):
    if isinstance(x, tuple) and x and x[0] == "par":
        _, name, a, b = x
        t = name if a == 1 else f"{rnum(a)}*{name}" if a.denominator == 1 else f"({rnum(a)})*{name}"
        if b != 0:
            t = f"{rnum(b)}-{name}" if (a == -1 and b > 0) else f"{t}+{rnum(b)}" if b > 0 else f"{t}-{rnum(-b)}"
        return t
    return x


def map_scalars(P, f):
    """apply f to every probability / coefficient of the program (polys, dists, probabilities)"""
    def mp(p):
        return [(f(c), m) for c, m in p]

    def mc(c):
        if c[0] == "atom":
            return ("atom", mp(c[1]), c[2], mp(c[3]))
        if c[0] in ("and", "or"):
            return (c[0], mc(c[1]), mc(c[2]))
        if c[0] == "not":
            return ("not", mc(c[1]))
        return c

    def md(d):
        if d[0] == "bernoulli":
            return ("bernoulli", f(d[1]))
        if d[0] == "categorical":
            return ("categorical", [f(p) for p in d[1]])
        if d[0] in ("normal", "laplace"):
            return (d[0], mp(d[1]), f(d[2]))
        if d[0] == "uniform":
            return ("uniform", mp(d[1]), mp(d[2]))
        return d

    def ms(ss):
        out = []
        for s in ss:
            if s[0] == "assign":
                out.append(("assign", s[1], [(f(p), mp(e)) for p, e in s[2]], mc(s[3]), s[4]))
            elif s[0] == "draw":
                out.append(("draw", s[1], md(s[2]), mc(s[3]), s[4]))
            elif s[0] == "simul":
                out.append(("simul", ms(s[1])))
            elif s[0] == "if":
                out.append(("if", [mc(c) for c in s[1]], [ms(b) for b in s[2]], ms(s[3])))
        return out
    Q = dict(P)
    Q["init"] = ms(P["init"])
    Q["body"] = ms(P["body"])
    Q["guard"] = mc(P["guard"])
    Q["s0"] = {k: f(v) for k, v in P["s0"].items()}
    return Q


def instantiate(T, point):
    return map_scalars(T, lambda x: inst_scalar(x, point))


def to_text_template(T):
    return map_scalars(T, text_scalar)


# ------------------------------------------------------------------------------------------------

PROBS = [F(1, 2), F(1, 3), F(1, 4), F(2, 3), F(3, 4), F(1, 5), F(1, 6), F(1, 8), F(3, 8), F(1, 10)]
COEFS = [F(1), F(2), F(-1), F(1, 2), F(3), F(-2), F(1, 3), F(3, 2), F(-1, 2)]


class Gen:
    def __init__(self, seed, profile=None):
        self.r = random.Random(seed)
        self.profile = profile or {}
        self.coefs = [c for c in COEFS if c.denominator in (1, 2, 4)] if self.profile.get("dyadic_values") else COEFS

    def prob(self):
        return self.r.choice(PROBS)

    def probs(self, k):
        """k probabilities summing to 1"""
        while True:
            ps = [self.r.choice(PROBS) for _ in range(k - 1)]
            if sum(ps) < 1:
                return ps + [1 - sum(ps)]

    def gen(self):
        r = self.r
        pf = self.profile
        n_fin = r.randint(1, 3)
        n_num = r.randint(1, 3)
        fin = [f"f{i}" for i in range(n_fin)]
        num = ["x", "y", "z"][:n_num]
        params = []
        use_param = pf.get("params", r.random() < 0.15)
        sym_init = pf.get("sym_init", r.random() < 0.25)
        guard_kind = pf.get("guard", r.choice(["true", "true", "counter", "flag"]))

        # finite variable kinds
        fkind = {}
        fvals = {}
        init = []
        for f in fin:
            k = r.choice(["bern", "cat", "dunif", "toggle", "state"])
            fkind[f] = k
            if k == "bern":
                fvals[f] = [F(0), F(1)]
            elif k == "cat":
                fvals[f] = [F(i) for i in range(r.randint(2, 3))]
            elif k == "dunif":
                lo = r.randint(-1, 1)
                fvals[f] = [F(i) for i in range(lo, lo + r.randint(2, 3))]
            elif k == "toggle":
                fvals[f] = [F(0), F(1)]
            else:
                fvals[f] = r.choice([[F(0), F(1), F(2)], [F(-1), F(0), F(1)], [F(1, 2), F(3, 2)], [F(1), F(2)]])
            init.append(("assign", f, [(F(1), const(r.choice(fvals[f])))], ("true",), f))
        s0 = {}
        for x in num:
            if sym_init and r.random() < 0.6:
                s0[x] = ("par", x + "0", F(1), F(0))   # uninitialised: symbolic initial value x0
                params.append(x + "0")
            else:
                init.append(("assign", x, [(F(1), const(r.randint(-2, 3)))], ("true",), x))
        if use_param:
            params.append("p")
        counter = None
        if guard_kind == "counter":
            counter = "c"
            init.append(("assign", "c", [(F(1), const(0))], ("true",), "c"))
        elif guard_kind == "flag":
            counter = "stop"
            init.append(("assign", "stop", [(F(1), const(0))], ("true",), "stop"))
        # a loop constant that conditions may test (folded by the ConstantsTransformer; branches may become constant)
        self.consts = {}
        if pf.get("const_flags", r.random() < 0.3):
            self.consts["k"] = F(r.choice([0, 1, 1, 2]))
            init.append(("assign", "k", [(F(1), const(self.consts["k"]))], ("true",), "k"))
        r.shuffle(init)

        self.fin, self.num, self.fvals, self.fkind = fin, num, fvals, fkind
        self.use_param = use_param
        self.linear_only = True if pf.get("cont") else pf.get("linear_only", r.random() < 0.4)
        body = self.block(depth=0, budget=r.randint(2, 4))
        # every finite variable is assigned somewhere at the top level of the body (otherwise it would be
        # a loop constant); draws mostly come first so that conditions are fresh
        assigned = set()
        def walk(ss):
            for st in ss:
                if st[0] in ("assign", "draw"):
                    assigned.add(st[1])
                elif st[0] == "simul":
                    walk(st[1])
                elif st[0] == "if":
                    for b in st[2]:
                        walk(b)
                    walk(st[3])
        walk(body)
        for x in num:
            if x not in assigned:
                body.insert(r.randint(0, len(body)), self.num_update(x))
        for f in fin:
            upd = self.fin_update(f)
            if fkind[f] in ("bern", "cat", "dunif") and r.random() < 0.7:
                body.insert(0, upd)
            else:
                body.insert(r.randint(0, len(body)), upd)
        if guard_kind == "counter":
            K = r.randint(2, 4)
            guard = ("atom", [(F(1), V("c"))], "<", const(K))
            step = [(self.pscalar(), padd([(F(1), V("c"))], const(1))), (None, [(F(1), V("c"))])]
            p0 = step[0][0]
            step = [(p0, step[0][1]), (self.one_minus(p0), step[1][1])]
            body.insert(r.randint(0, len(body)), ("assign", "c", step, ("true",), "c"))
            self.fvals["c"] = [F(i) for i in range(K + 1)]
        elif guard_kind == "flag":
            guard = ("atom", [(F(1), V("stop"))], "==", const(0))
            body.insert(r.randint(0, len(body)), ("draw", "stop", ("bernoulli", self.pscalar()), ("true",), "stop"))
            self.fvals["stop"] = [F(0), F(1)]
        else:
            guard = ("true",)
        T = {"vars": sorted(set(fin + num + ([counter] if counter else []) + list(self.consts))),
             "s0": s0, "init": init, "guard": guard, "body": body}
        self.types = {"c": self.fvals["c"]} if guard_kind == "counter" else None
        return T, sorted(set(params))

    def pscalar(self):
        if self.use_param and self.r.random() < 0.5:
            return ("par", "p", F(1), F(0))
        return self.prob()

    def one_minus(self, p):
        if isinstance(p, tuple):
            return ("par", p[1], -p[2], 1 - p[3])
        return 1 - p

    def fin_update(self, f):
        r = self.r
        k = self.fkind[f]
        if k == "bern":
            return ("draw", f, ("bernoulli", self.pscalar()), ("true",), f)
        if k == "cat":
            n = len(self.fvals[f])
            if n == 2 and self.use_param and r.random() < 0.5:
                p = ("par", "p", F(1), F(0))
                return ("draw", f, ("categorical", [p, self.one_minus(p)]), ("true",), f)
            return ("draw", f, ("categorical", self.probs(n)), ("true",), f)
        if k == "dunif":
            return ("draw", f, ("duniform", int(self.fvals[f][0]), int(self.fvals[f][-1])), ("true",), f)
        if k == "toggle":
            if r.random() < 0.5:
                return ("assign", f, [(F(1), padd(const(1), [(F(-1), V(f))]))], ("true",), f)
            p = self.pscalar()
            return ("assign", f, [(p, padd(const(1), [(F(-1), V(f))])), (self.one_minus(p), [(F(1), V(f))])], ("true",), f)
        # state: jump to a random value of its set, with probability
        vals = self.fvals[f]
        k2 = r.randint(1, min(3, len(vals)))
        ps = self.probs(k2) if k2 > 1 else [F(1)]
        return ("assign", f, [(p, const(r.choice(vals))) for p in ps], ("true",), f)

    def num_expr(self, x, allow_nonlinear=True):
        """right-hand side polynomial for numeric variable x"""
        r = self.r
        i = self.num.index(x)
        p = []
        if r.random() < 0.85:
            p = [(r.choice([F(1), F(1), F(1), F(2), F(1, 2), F(-1)]), V(x))]
        # linear in other numeric variables (higher ones only in programs without non-linear terms)
        for y in self.num:
            if y != x and r.random() < 0.3 and (self.linear_only or self.num.index(y) < i):
                p = padd(p, [(r.choice(self.coefs), V(y))])
        # finite variables, possibly multiplied with lower numeric ones
        for f in self.fin:
            if r.random() < 0.4:
                t = [(r.choice(self.coefs), V(f))]
                if r.random() < 0.3:
                    t = pmul(t, [(F(1), V(f))])
                p = padd(p, t)
        if allow_nonlinear and not self.linear_only and i > 0 and r.random() < 0.4:
            y = self.num[r.randrange(i)]
            t = [(r.choice(self.coefs), V(y, r.choice([1, 2, 2])))]
            if r.random() < 0.4:
                t = pmul(t, [(F(1), V(r.choice(self.fin)))])
            p = padd(p, t)
        if r.random() < 0.5:
            p = padd(p, const(r.choice([1, -1, 2, F(1, 2)])))
        return p

    def num_update(self, x):
        r = self.r
        if self.profile.get("cont") and r.random() < 0.4:
            # continuous draw with a state-dependent location (constant scale): x stays affine in the draws
            loc = self.num_expr(x, False)
            fam = r.choice(["normal", "normal", "uniform", "laplace"])
            if fam == "normal":
                return ("draw", x, ("normal", loc, r.choice([F(1), F(4), F(1, 4), F(2), F(9, 4)])), ("true",), x)
            if fam == "laplace":
                return ("draw", x, ("laplace", loc, r.choice([F(1), F(2), F(1, 2), F(3, 2)])), ("true",), x)
            return ("draw", x, ("uniform", loc, padd(loc, const(r.choice([1, 2, F(1, 2), 3])))), ("true",), x)
        k = r.choice([1, 1, 2, 2, 3])
        if k == 1:
            return ("assign", x, [(F(1), self.num_expr(x))], ("true",), x)
        if k == 2:
            p = self.pscalar()
            return ("assign", x, [(p, self.num_expr(x)), (self.one_minus(p), self.num_expr(x))], ("true",), x)
        ps = self.probs(3)
        return ("assign", x, [(p, self.num_expr(x)) for p in ps], ("true",), x)

    def cond(self, depth=0):
        r = self.r
        f = r.choice(self.fin)
        vals = self.fvals[f]
        op = r.choice(["==", "==", "<", ">", "<=", ">=", "/="] if self.profile.get("neq", False)
                      else ["==", "==", "<", ">", "<=", ">="])
        atom = ("atom", [(F(1), V(f))], op, const(r.choice(vals)))
        if getattr(self, "consts", None) and r.random() < 0.2:
            atom = ("atom", [(F(1), V("k"))], r.choice(["==", "==", ">", "<="]), const(r.choice([0, 1, 2])))
        if depth < 1 and r.random() < 0.3:
            c2 = self.cond(depth + 1)
            k = r.choice(["and", "or", "not"])
            if k == "not":
                return ("not", atom)
            return (k, atom, c2)
        return atom

    def stmt(self, depth):
        r = self.r
        k = r.random()
        if k < 0.45:
            return self.num_update(r.choice(self.num))
        if k < 0.6:
            return self.fin_update(r.choice(self.fin))
        if k < 0.68 and len(self.num) >= 2 and self.linear_only:
            a, b = r.sample(self.num, 2)
            return ("simul", [("assign", a, [(F(1), self.num_expr(a, False))], ("true",), a),
                              ("assign", b, [(F(1), self.num_expr(b, False))], ("true",), b)])
        if depth < 2:
            nb = r.choice([1, 1, 2, 3])
            cs = [self.cond() for _ in range(nb)]
            bs = [self.block(depth + 1, r.randint(1, 2)) for _ in range(nb)]
            el = self.block(depth + 1, r.randint(1, 2)) if r.random() < 0.5 else []
            return ("if", cs, bs, el)
        return self.num_update(r.choice(self.num))

    def block(self, depth, budget):
        return [self.stmt(depth) for _ in range(budget)]


def choose_points(params, rng, k=2):
    pts = []
    for i in range(k):
        pt = {}
        for p in params:
            if p == "p":
                pt[p] = str(rng.choice([F(1, 2), F(1, 3), F(1, 4), F(2, 3), F(3, 4)]))
            else:
                pt[p] = str(rng.choice([F(0), F(1), F(2), F(-1), F(3), F(1, 2)]))
        pts.append(pt)
        if not params:
            break
    return pts


def default_goals(T, rng, maxdeg=2, k=6):
    vs = [v for v in T["vars"]]
    goals = []
    for v in vs:
        goals.append(v)
    for v in vs:
        goals.append(f"{v}**2")
    for i in range(len(vs)):
        for j in range(i + 1, len(vs)):
            goals.append(f"{vs[i]}*{vs[j]}")
    if maxdeg >= 3:
        for v in vs:
            goals.append(f"{v}**3")
    rng.shuffle(goals)
    return sorted(goals[:k])


def paths(stmts):
    """upper bound on the number of probabilistic resolutions of one execution of stmts"""
    n = 1
    for s in stmts:
        if s[0] == "assign":
            n *= len(s[2])
        elif s[0] == "draw":
            d = s[2]
            n *= 2 if d[0] == "bernoulli" else len(d[1]) if d[0] in ("categorical", "finite") else \
                3 if d[0] in ("normal", "uniform", "laplace") else d[2] - d[1] + 1
        elif s[0] == "simul":
            n *= paths(s[1])
        elif s[0] == "if":
            n *= max([paths(b) for b in s[2]] + [paths(s[3])])
    return n


def horizon(T, limit=4000, lo=3, hi=8):
    b = paths(T["body"]) * max(1, paths(T["init"]))
    n = lo
    while n < hi and b ** (n + 1) <= limit:
        n += 1
    return n, b


# ------------------------------------------------------------------------------------------------
# meaning-preserving spellings of the same abstract program (C19)

def desugar_simul(stmts, counter=None):
    """simultaneous assignments rewritten with explicit temporaries (new variables tq0, tq1, ...)"""
    counter = counter if counter is not None else [0]
    out = []
    for s in stmts:
        if s[0] == "simul":
            first, second = [], []
            for it in s[1]:
                t = f"tq{counter[0]}"
                counter[0] += 1
                first.append((it[0], t) + tuple(it[2:4]) + (t,))
                second.append(("assign", it[1], [(F(1), [(F(1), V(t))])], ("true",), it[1]))
            out += first + second
        elif s[0] == "if":
            out.append(("if", s[1], [desugar_simul(b, counter) for b in s[2]], desugar_simul(s[3], counter)))
        else:
            out.append(s)
    return out


def nest_elifs(stmts):
    """if c1: A elif c2: B else: C end   ->   if c1: A else: if c2: B else: C end end"""
    out = []
    for s in stmts:
        if s[0] == "if":
            conds, branches, el = s[1], [nest_elifs(b) for b in s[2]], nest_elifs(s[3])
            node_else = el
            for c, b in reversed(list(zip(conds[1:], branches[1:]))):
                node_else = [("if", [c], [b], node_else)]
            out.append(("if", [conds[0]], [branches[0]], node_else))
        elif s[0] == "simul":
            out.append(s)
        else:
            out.append(s)
    return out


def noisy(text, rng):
    """whitespace, comments and blank lines"""
    lines = []
    for line in text.splitlines():
        ind = len(line) - len(line.lstrip())
        body = line.strip()
        if rng.random() < 0.3:
            lines.append("")
        if rng.random() < 0.2:
            lines.append(" " * ind + "# a comment line")
        body = body.replace(" = ", rng.choice([" = ", "=", "  =   "]), 1) if "==" not in body else body
        body = body.replace(" + ", rng.choice([" + ", "+", "  +  "]))
        if rng.random() < 0.3:
            body += "   # trailing comment"
        lines.append(" " * ind + body + (" " if rng.random() < 0.3 else ""))
    return "\n".join(lines) + "\n\n"


def rpoly_parens(p, rng):
    """fully parenthesised rendering of a polynomial"""
    if not p:
        return "0"
    terms = []
    for c, m in p:
        cs = rnum(c)
        if c < 0 or "/" in cs:
            cs = f"({cs})"
        t = cs
        for v, e in m:
            f = f"({v})" if rng.random() < 0.5 else v
            if e != 1:
                f = f"({f}**{e})"
            t = f"({t}*{f})"
        terms.append(t)
    out = terms[0]
    for t in terms[1:]:
        out = f"({out} + {t})"
    return out


def render_variant(T, kind, rng, types=None):
    """source text of template T in one of the spellings; T itself stays the ground truth"""
    Tt = to_text_template(T)
    if kind == "plain":
        return render(Tt, types=types)
    if kind == "decimal":
        return render(Tt, style=1, types=types)
    if kind == "explicit_last":
        return render(Tt, explicit_last=True, types=types)
    if kind == "noisy":
        return noisy(render(Tt, types=types), rng)
    if kind == "temporaries":
        Q = dict(Tt)
        Q["init"] = desugar_simul(Tt["init"])
        Q["body"] = desugar_simul(Tt["body"])
        return render(Q, types=types)
    if kind == "nested_else":
        Q = dict(Tt)
        Q["body"] = nest_elifs(Tt["body"])
        return render(Q, types=types)
    if kind == "parens":
        global rpoly
        saved = rpoly
        try:
            rpoly = lambda p, style=0, sym=None: rpoly_parens(p, rng)   # noqa: E731
            return render(Tt, types=types)
        finally:
            rpoly = saved
    raise ValueError(kind)


VARIANT_KINDS = ["plain", "decimal", "explicit_last", "noisy", "temporaries", "nested_else", "parens"]
