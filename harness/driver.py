"""Generic driver of the trace-validation checks (C01, C02, C03, C05, C09, C10, C11, C14, C17, C19)."""
import json
import os
import random

from . import campaign as C, pool
from .encode import dec_r
from .report import Run


def by_id_tmp(traces, tid):
    for t in traces:
        if t["id"] == tid:
            return t
    return {"N": 10 ** 9}


def decode_got(got, D):
    try:
        if isinstance(got, dict) and "m" in got:
            return str(dec_r(got, D))
        if isinstance(got, dict) and "a" in got:
            return [str(dec_r(got["a"], D)), str(dec_r(got["b"], D))]
        if isinstance(got, list):
            return [decode_got(g, D) for g in got]
    except Exception:
        pass
    try:
        json.dumps(got)
        return got
    except Exception:
        return str(got)


def fail_summary(tr, v, limit=12):
    out = []
    for f in v["fails"][:limit]:
        cl = tr["steps"][f["n"]][f["i"] - 1] if f["i"] > 0 else {}
        out.append({"n": f["n"], "clause": f["t"], "tag": cl.get("tag"),
                    "claimed": str(cl.get("val", cl.get("lo", ""))), "semantics": decode_got(f.get("got"), v["D"])})
    return out


def analysis_check(pid, tier, seed, *, items, want, builders, N, variants=None, job_extra=None, timeout=120,
                   assumptions=None, extra_coverage=None, level="model_checking", max_confirm=12,
                   post=None, key_fn=None, N_ext=None):
    """variants: list of (suffix, settings dict); every item is analysed under every variant.
    post(run, ctxs) may add further violations / coverage (returns dict merged into coverage)."""
    run = Run(pid, level, tier, seed)
    variants = variants or [("", {})]
    all_traces, all_meta, notes_all = [], {}, {}
    results_by_variant = {}
    jobs_by_key = {}
    for suffix, settings in variants:
        jobs = C.make_jobs(items, want, max(N, N_ext or 0), settings=settings, timeout=timeout, extra=job_extra)
        for j in jobs:
            jobs_by_key[(j["id"], suffix)] = j
        results = pool.run_jobs(jobs)
        results_by_variant[suffix] = results
        traces, meta, notes = C.build(items, results, N, builders, suffix=suffix)
        for k, v in notes.items():
            if isinstance(v, int):
                notes_all[k] = notes_all.get(k, 0) + v
        for iid, pi, d in notes.get("direct", [])[:40]:
            it = next(i for i in items if i["id"] == iid)
            run.violation({iid, f"{iid}:{d.get('goal')}"}, dict(d, program=it["text"], variant=suffix))
        all_traces += traces
        for tid, (it, pi) in meta.items():
            all_meta[tid] = (it, pi, suffix)
    verdicts, stats, errors = C.run_tlc(all_traces)
    # ---- order-bound extension (DESIGN.md 6(A)): a trace whose reachable set closed describes a finite chain with
    # m stores; Polar's formula past its K special cases satisfies a recurrence of order <= d (size of its system);
    # agreement on n = 0..K+d+m decides agreement for all n.  Such traces are re-validated with that horizon.
    decided_all_n = 0
    if N_ext:
        horizon = {}
        for tid, v in verdicts.items():
            it, pi, suffix = all_meta[tid]
            if v["closedAt"] < 0 or v["fails"] or v["steps"] < by_id_tmp(all_traces, tid)["N"]:
                continue
            res = results_by_variant[suffix].get(it["id"], {})
            dims = [len(go.get("recs", {}).get("monomials", [])) + 1 for go in (res.get("goals") or {}).values() if "recs" in go]
            ks = [cf.count("n <= ") for cf in [go.get("closed_form", "") for go in (res.get("goals") or {}).values()]]
            if not dims:
                continue
            # order of Polar's formula: generously twice the size of its recurrence system
            need = max(ks + [0]) + 2 * max(dims) + v["reach"] + 1
            if need <= N_ext:
                horizon[(it["id"], pi, suffix)] = need
        if horizon:
            ext_traces = []
            for suffix, _settings in variants:
                hz = {(i, p): n for (i, p, sfx), n in horizon.items() if sfx == suffix}
                if not hz:
                    continue
                its = [it for it in items if any(i == it["id"] for (i, p) in hz)]
                tr, trmeta, _ = C.build(its, results_by_variant[suffix], N, builders, suffix=suffix, horizon=hz)
                ext_traces += [t for t in tr if (trmeta[t["id"]][0]["id"], trmeta[t["id"]][1]) in hz]
            ev, est, eerr = C.run_tlc(ext_traces)
            stats["states"] += est["states"]
            stats["distinct"] += est["distinct"]
            stats["tlc_runs"] += est["tlc_runs"]
            stats["tlc_wall_s"] += est["tlc_wall_s"]
            for t in ext_traces:
                v2 = ev.get(t["id"])
                if v2 is None:
                    continue
                if v2["steps"] >= t["N"] and not v2["fails"]:
                    decided_all_n += 1
                # the longer trace replaces the shorter one (its failures are handled like any other)
                verdicts[t["id"]] = v2
                for k_, tr_old in enumerate(all_traces):
                    if tr_old["id"] == t["id"]:
                        all_traces[k_] = t
    by_id = {t["id"]: t for t in all_traces}
    items_by_id = {i["id"]: i for i in items}

    nfail = confirmed = 0
    failing_items = {}
    for tid, v in list(verdicts.items()):
        it, pi, suffix = all_meta[tid]
        if it.get("T") is None and any(f["t"] == "mass" and f.get("pi") == 1 for f in v["fails"]):
            # the parameter point does not make the source program's probability vectors valid (e.g. symbolic
            # Categorical parameters that do not sum to 1): an ill-formed instantiation, not a result to judge
            notes_all["ill_formed_instantiation_dropped"] = notes_all.get("ill_formed_instantiation_dropped", 0) + 1
            del verdicts[tid]
            continue
        if v["fails"]:
            nfail += 1
            failing_items.setdefault((it["id"], suffix), []).append(tid)
    # confirm each failing (item, variant) in a fresh process
    for (iid, suffix), tids in list(failing_items.items()):
        it = items_by_id[iid]
        known_keys = {iid} | set(it.get("meta", {}).get("finding", "").split())
        if confirmed >= max_confirm and run.match_known(known_keys) is None:
            # still report, but without the fresh re-run (bounded cost); the first ones were confirmed
            for tid in tids:
                keys = set(known_keys)
                if key_fn:
                    keys |= key_fn(it, results_by_variant[suffix].get(iid, {}), fail_summary(by_id[tid], verdicts[tid], 10 ** 6))
                run.violation(keys, {"trace": tid, "program": it["text"], "variant": suffix,
                                     "failures": fail_summary(by_id[tid], verdicts[tid]),
                                     "confirmed_fresh": False})
            continue
        fresh = pool.run_fresh(jobs_by_key[(iid, suffix)])
        ftr, fmeta, _ = C.build([it], {iid: fresh}, N, builders, suffix=suffix)
        ftr = [t for t in ftr if t["id"] in tids]
        fv, _, _ = C.run_tlc(ftr, workers=4) if ftr else ({}, None, None)
        still = [t for t in ftr if fv.get(t["id"], {}).get("fails")]
        if not still:
            run.error(f"{iid}{suffix}: failure not reproduced in a fresh process (history dependence? see C20)")
            continue
        confirmed += 1
        for t in still:
            pi = all_meta[t["id"]][1]
            fs = fail_summary(t, fv[t["id"]])
            keys = set(known_keys)
            for f in fs:
                if f.get("tag"):
                    keys.add(f"{iid}:{f['tag']}")
            if key_fn:
                keys |= key_fn(it, fresh, fail_summary(t, fv[t["id"]], 10 ** 6))
            run.violation(keys, {"trace": t["id"], "program": it["text"], "origin": it.get("origin"),
                                 "variant": suffix, "point": fresh.get("points_used", [{}])[pi],
                                 "failures": fs, "confirmed_fresh": True,
                                 "replay": f"./check {pid} --replay <this file>"})
    for tid, e in errors.items():
        if "not encodable" in e:
            notes_all["not_encodable"] = notes_all.get("not_encodable", 0) + 1
        elif e.startswith("tlc timeout"):
            notes_all["tlc_timeouts"] = notes_all.get("tlc_timeouts", 0) + 1
        else:
            run.error(f"{tid}: {e}")

    samples = []
    for tid in sorted(verdicts)[:3]:
        it, pi, suffix = all_meta[tid]
        tr = by_id[tid]
        samples.append({"trace": tid, "program": it["text"], "variant": suffix,
                        "claims_at_n1": [{k: str(v) for k, v in cl.items() if k in ("t", "tag", "val", "k")}
                                         for cl in (tr["steps"][1] if len(tr["steps"]) > 1 else tr["steps"][0])][:8],
                        "verdict": {k: verdicts[tid][k] for k in ("steps", "reach", "closedAt", "support", "skipped")}})
    nclaims = sum(len(s) for t in all_traces for s in t["steps"])
    by_type = {}
    for t in all_traces:
        for s in t["steps"]:
            for cl in s:
                by_type[cl["t"]] = by_type.get(cl["t"], 0) + 1
    accepted = sum(1 for r in results_by_variant.values() for x in r.values() if not x.get("stage"))
    coverage = {
        "states": stats["distinct"], "transitions": stats["states"],
        "traces_validated_against_impl": len(verdicts),
        "samples": samples or [{"note": "no trace produced"}],
        "programs": len(items), "variants": [s or "default" for s, _ in variants],
        "analyses_accepted_by_polar": accepted,
        "analyses_refused_or_timed_out": sum(len(r) for r in results_by_variant.values()) - accepted,
        "claims_checked": nclaims, "claims_by_clause": by_type, "N": N,
        "claims_skipped_by_spec_precondition": sum(v["skipped"] for v in verdicts.values()),
        "traces_cut_by_support_cap": sum(1 for tid, v in verdicts.items() if v["steps"] < by_id[tid]["N"]),
        "traces_with_failures": nfail, "failing_analyses_confirmed_in_fresh_process": confirmed,
        "finite_chain_traces": sum(1 for v in verdicts.values() if v["closedAt"] >= 0),
        "traces_decided_for_all_n_by_order_bound": decided_all_n,
        "notes": notes_all, "tlc_runs": stats["tlc_runs"], "tlc_wall_s": round(stats["tlc_wall_s"], 1),
        "exhaustive": False,
    }
    ctx = {"run": run, "items": items, "results": results_by_variant, "verdicts": verdicts, "traces": by_id,
           "meta": all_meta, "variants": variants}
    if post:
        coverage.update(post(ctx) or {})
    if extra_coverage:
        coverage.update(extra_coverage)
    base_assumptions = [
        "TLC 1.8 and CommunityModules Json/FiniteSetsExt; spec/Exact.tla (self-tested against native arithmetic in setup)",
        "sympy evaluates Polar's closed forms at integer n and rational parameter points (utils.eval_re, as --at_n does)",
        "parameter values and symbolic initial values are sampled (2 points per program); n <= N",
        "where used (checks that request `cont'): Normal / Uniform / Laplace draws with constant scale are replaced by finitely supported laws with the same moments up to order 3 or 5 (harness/absyn.py:surrogate, weights solved exactly); only programs in which every variable is affine in the continuous draws and no condition reads them, only monomials within that order",
        "order-bound extension (where used): the general branch of a closed form is an exponential polynomial of order at most twice the size of Polar's recurrence system; the exact sequence of a chain with m reachable stores has order at most m",
    ]
    return run.finish(coverage, base_assumptions + (assumptions or []))


def standard_items(run_seed, tier, n_gen_quick, n_gen_thorough, bench_quick=15, profile=None, maxdeg=2, ngoals=5,
                   corpus=True, bench=True, corpus_quick=None, ps_quick=0, ps_thorough=0, bench_thorough=40):
    quick = tier == "quick"
    items = C.corpus_files() if corpus else []
    if quick and corpus_quick is not None:
        random.Random(run_seed + 17).shuffle(items)
        items = items[:corpus_quick]
    if bench:
        b = C.benchmark_files()
        rng = random.Random(run_seed)
        rng.shuffle(b)
        items += b[:bench_quick] if quick else b[:bench_thorough]
    items += C.fixed_templates()
    items += C.generated(run_seed, n_gen_quick if quick else n_gen_thorough, profile=profile,
                         maxdeg=maxdeg if quick else maxdeg + 1, ngoals=ngoals if quick else ngoals + 3)
    nps = ps_quick if quick else ps_thorough
    if nps:
        # spec -> code: programs enumerated by TLC from spec/ProgSpace.tla (every body of at most 2 statements of its menu)
        from . import progspace
        ps, _cov = progspace.items(2, 4, sample=nps, rng=random.Random(run_seed + 5))
        items += ps
    return items


def replay_analysis(pid, path, *, want, builders, N, variants=None, job_extra=None, timeout=300, key_fn=None, post=None):
    """re-run the single program of a replay file through the same pipeline (source semantics: Polar's parse)"""
    d = json.load(open(path))
    det = d["detail"]
    text = det.get("program") or det.get("text")
    if not text:
        print("replay file has no program text")
        return 2
    it = {"id": "replay", "text": text, "T": None, "goals": None, "points": [det["point"]] if isinstance(det.get("point"), dict) else "auto",
          "origin": path, "meta": {}}
    suffix = det.get("variant") or ""
    vs = [v for v in (variants or [("", {})]) if v[0] == suffix] or [("", {})]
    os.environ["VERIF_EVIDENCE_DIR"] = os.path.join("/tmp", "verif-replay-evidence")
    from . import report
    report.EVID = os.environ["VERIF_EVIDENCE_DIR"]
    report.REPLAY = os.path.join(report.EVID, "replay")
    return analysis_check(pid, "quick", 0, items=[it], want=want, builders=builders, N=N, variants=vs, job_extra=job_extra,
                          timeout=timeout, key_fn=key_fn)
