"""Conditions abstracted as Bernoulli events (ConditionsNormalizer._try_abstract_failed_condition).

When a condition over a variable without a finite type is iteration independent, Polar replaces it by a fresh draw
_aK = Bernoulli(_probK) and reports closed forms that are polynomials in the constants _probK = P(condition).  For
programs whose variables are in fact finitely valued (type inference switched off, or failing) the specification can
execute everything:

 phase 1  the normalized program with every abstraction draw replaced by the indicator of its condition (exported by
          the worker) is stepped by LoopTrace; clause `goalvals' returns E[_aK] = P(condition) for n = 1..3.  A
          probability that changes with n means the condition was not iteration independent (recorded, not used).
 phase 2  with _probK := that value
          (a) clause `equiv': the source program and the normalized program WITH the independent draws have the same
              joint law on the source variables at every iteration boundary (C02: a stand-in for a draw never
              changes the distribution);
          (b) clause `mom': Polar's closed forms evaluated at _probK equal the expectations of the source (C01).
"""
import copy
from fractions import Fraction as F

from . import absyn, campaign as C, encode as E, gen, pool

FIXED = [
    ("independent", "u = 0\ny = 0\nwhile true:\n    u = DiscreteUniform(0, 2)\n    if u > 0:\n        y = y + 1\n    end\nend\n", ["y", "y**2", "u*y"]),
    ("reads_function_of_condition_variable", "u = 0\nx = 0\ny = 0\nwhile true:\n    u = DiscreteUniform(0, 2)\n    x = u + 1\n    if u > 0:\n        y = y + x\n    end\nend\n", ["y", "x", "y**2"]),
    ("reads_independent_variable", "u = 0\nv = 0\ny = 0\nwhile true:\n    u = DiscreteUniform(0, 2)\n    v = Bernoulli(1/2)\n    if u > 0:\n        y = y + v\n    end\nend\n", ["y", "y*v", "y**2"]),
    ("condition_variable_used_later", "u = 0\ny = 0\nz = 0\nwhile true:\n    u = DiscreteUniform(0, 2)\n    if u > 0:\n        y = y + 1\n    end\n    z = z + u\nend\n", ["y", "z", "y*z"]),
    ("two_conditions_same_draw", "u = 0\nx = 0\ny = 0\nwhile true:\n    u = DiscreteUniform(0, 2)\n    if u < 1:\n        x = x + 1\n    elif u < 2:\n        y = y + 1\n    end\nend\n", ["x", "y", "x*y"]),
    ("same_condition_twice", "u = 0\nx = 0\ny = 0\nwhile true:\n    u = DiscreteUniform(0, 2)\n    if u > 0:\n        x = x + 1\n    end\n    if u > 0:\n        y = y + 1\n    end\nend\n", ["x", "y", "x*y"]),
    ("sum_of_two_draws", "u = 0\nv = 0\ny = 0\nwhile true:\n    u = DiscreteUniform(0, 2)\n    v = DiscreteUniform(0, 1)\n    if u + v > 1:\n        y = y + 2\n    else:\n        y = y - 1\n    end\nend\n", ["y", "y**2"]),
    ("descendant_in_condition", "u = 0\nw = 0\ny = 0\nwhile true:\n    u = Bernoulli(1/3)\n    w = 2*u\n    if w > 1:\n        y = y + u\n    end\nend\n", ["y", "y**2"]),
    ("multi_assigned_default_types", "x = 0\ny = 0\nz = 0\nwhile true:\n    x = Bernoulli(1/2)\n    if x == 1:\n        y = y + 1\n    end\n    z = z + x**2\n    x = 2*x\nend\n", ["x", "y", "z", "y*z"]),
    ("previous_iteration_value", "u = 0\ny = 0\nwhile true:\n    if u > 0:\n        y = y + 1\n    end\n    u = DiscreteUniform(0, 2)\nend\n", ["y"]),
    ("choice_in_branch", "u = 0\ny = 0\nwhile true:\n    u = Categorical(1/4, 1/4, 1/2)\n    if u >= 1:\n        y = y + 1 {1/2} y + u\n    end\nend\n", ["y", "y**2"]),
]


def _with_draws(P, sites, probs):
    """normalized program with the independent draws _aK = Bernoulli(p_K) put back at the recorded sites"""
    Q = copy.deepcopy(P)
    for s in sites:
        blk = Q["init"] if s["where"] == "init" else Q["body"]
        blk[s["index"]] = ("draw", s["var"], ("bernoulli", probs[s["prob"]]), ("true",), s["var"])
    return Q


def _poison(P, keep):
    return C.poisoned(P, set(keep))


def part(run, tier, seed, mode, n_gen=None):
    """mode 'mom' (C01) or 'equiv' (C02); returns coverage dict, reports violations on run"""
    quick = tier == "quick"
    N = 4
    items = [{"id": "abs-" + name, "text": text, "goals": goals, "settings": ({} if name == "multi_assigned_default_types" else {"disable_type_inference": True})}
             for name, text, goals in FIXED]
    for it in C.generated(seed + 31, n_gen if n_gen is not None else (8 if quick else 120), maxdeg=2, ngoals=3):
        items.append({"id": "abs-" + it["id"], "text": it["text"],
                      "goals": it["goals"], "settings": {"disable_type_inference": True}, "generated": True})
    jobs = [{"kind": "analyze", "id": it["id"], "text": it["text"], "goals": it["goals"], "points": "auto:1", "N": N,
             "want": ["parsed", "moments", "abstractions"], "settings": it["settings"], "timeout": 90} for it in items]
    res = pool.run_jobs(jobs, per_job_timeout=120)
    cov = {"abstraction_programs": len(items), "abstraction_analyses_with_abstractions": 0, "abstraction_refused": 0,
           "abstraction_sites": 0, "abstraction_not_iteration_independent": 0, "abstraction_claims": 0, "abstraction_failures": 0}
    # ---- phase 1: P(condition) from the semantics
    t1, meta = [], {}
    for it in items:
        r = res.get(it["id"]) or {}
        if r.get("stage") in ("parse", "normalize", "timeout", "crash"):
            cov["abstraction_refused"] += 1
            continue
        ab = (r.get("abstractions") or [None])[0]
        if not ab or not ab["sites"] or any(s["where"] != "body" for s in ab["sites"]):
            continue
        try:
            Pi = absyn.prog(ab["prog"])
            src = absyn.prog(r["parsed"][0])
        except Exception:
            continue
        cov["abstraction_analyses_with_abstractions"] += 1
        cov["abstraction_sites"] += len(ab["sites"])
        goals = [{"kind": "mom", "k": 0, "poly": [(F(1), ((s["var"], 1),))]} for s in ab["sites"]]
        steps = [[] for _ in range(4)]
        for n in (1, 2, 3):
            steps[n].append({"t": "goalvals", "pi": 1, "goals": goals, "tag": "p"})
        tid = it["id"] + "-ph1"
        t1.append({"id": tid, "vars": Pi["vars"], "progs": [Pi], "N": 3, "steps": steps})
        meta[it["id"]] = (it, r, ab, Pi, src)
    v1, st1, err1 = C.run_tlc(t1) if t1 else ({}, {"distinct": 0, "states": 0}, {})
    for tid, e in err1.items():
        if "not encodable" not in e:
            (None if e.startswith("tlc timeout") else run.error(f"{tid}: {e}"))
    # ---- phase 2
    t2, info = [], {}
    for iid, (it, r, ab, Pi, src) in meta.items():
        v = v1.get(iid + "-ph1")
        if v is None or v["steps"] < 3:
            continue
        per_n = {f["n"]: [E.dec_r(x, v["D"]) for x in f["got"]] for f in v["fails"] if f["t"] == "goalvals"}
        if len(per_n) < 3 or not (per_n[1] == per_n[2] == per_n[3]):
            cov["abstraction_not_iteration_independent"] += 1
            continue
        probs = {s["prob"]: per_n[1][i] for i, s in enumerate(ab["sites"])}
        steps = [[] for _ in range(N + 1)]
        progs = [src]
        src_vars = [x for x in src["vars"] if not x.startswith("_")]
        if mode == "equiv":
            Q = _poison(_with_draws(Pi, ab["sites"], probs), src["vars"])
            progs.append(Q)
            # the stand-in is independent of everything the condition depends on (by design); the law is compared on
            # the source variables that do not depend on the condition's variables
            Dset, _inside = closure(ab)
            common = [x for x in src_vars if x in Q["vars"] and x not in Dset]
            if not common:
                continue
            for n in range(N + 1):
                steps[n].append({"t": "equiv", "a": 1, "b": 2, "va": common, "vb": common, "tag": "abstraction"})
        else:
            for g, go in (r.get("goals") or {}).items():
                if "values" not in go:
                    continue
                poly = absyn.mono_of(g)
                if any(x not in src["vars"] for x, _ in poly[0][1]):
                    continue
                for n, val in enumerate(go["values"][0][:N + 1]):
                    if "q" in val:
                        x = F(val["q"])
                    elif "terms" in val:
                        names = val["absprob"]
                        if any(nm not in probs for nm in names):
                            continue
                        x = sum(F(c) * _prod(probs[nm] ** e for nm, e in zip(names, es)) for c, es in val["terms"])
                    else:
                        continue
                    steps[n].append({"t": "mom", "pi": 1, "poly": poly, "val": x, "tag": g})
        if not any(steps):
            continue
        tid = iid + "-ph2"
        allvars = list(dict.fromkeys([x for P in progs for x in P["vars"]]))
        t2.append({"id": tid, "vars": allvars, "progs": progs, "N": N, "steps": steps})
        info[tid] = (it, r, probs, ab)
        cov["abstraction_claims"] += sum(len(s) for s in steps)
    v2, st2, err2 = C.run_tlc(t2) if t2 else ({}, {"distinct": 0, "states": 0}, {})
    for tid, e in err2.items():
        if "not encodable" not in e:
            (None if e.startswith("tlc timeout") else run.error(f"{tid}: {e}"))
    from .driver import fail_summary
    by_id = {t["id"]: t for t in t2}
    for tid, v in v2.items():
        if not v["fails"]:
            continue
        it, r, probs, ab = info[tid]
        cov["abstraction_failures"] += 1
        fs = fail_summary(by_id[tid], v, 6)
        allf = fail_summary(by_id[tid], v, 10000)
        shape = shape_keys(ab, sorted({f.get("tag") for f in allf if f.get("clause") == "mom"})) if mode == "mom" else set()
        run.violation({it["id"]} | {f"{it['id']}:{f.get('tag')}" for f in fs} | shape,
                      {"clause": "abstracted condition: " + ("law of the program with the independent stand-in draws differs from the source"
                                                              if mode == "equiv" else "closed form evaluated at _prob = P(condition) differs from the expectation"),
                       "program": it["text"], "settings": it["settings"], "abstracted": r.get("abstracted"),
                       "probabilities": {k: str(x) for k, x in probs.items()}, "failures": fs})
    cov["abstraction_tlc_states"] = st1.get("distinct", 0) + st2.get("distinct", 0)
    return cov


def _vp(p):
    return {v for _c, mono in p for v, _e in mono}


def _vc(c):
    if c[0] == "atom":
        return _vp(c[1]) | _vp(c[3])
    if c[0] in ("and", "or"):
        return _vc(c[1]) | _vc(c[2])
    if c[0] == "not":
        return _vc(c[1])
    return set()


def _reads(s):
    """variables a (flat, exported) statement reads, excluding its own default"""
    if s[0] == "assign":
        return set().union(*[_vp(e) for _p, e in s[2]]) | _vc(s[3])
    if s[0] == "draw":
        return _vc(s[3])
    if s[0] == "func":
        return ({s[3]} if not s[3].replace("/", "").replace("-", "").isdigit() else set()) | _vc(s[4])
    return set()


def closure(ab):
    """(D, inside): D = every variable of the iteration that depends on something the abstracted conditions depend on
    (ancestors of the condition variables and their descendants through assignments NOT guarded by a stand-in); inside = an assignment conditioned on a
    stand-in draw itself reads a variable of D (then the stand-in cannot be independent of what it guards)"""
    body = ab["prog"]["body"]
    site_idx = {s["index"] for s in ab["sites"] if s["where"] == "body"}
    avars = {s["var"] for s in ab["sites"]}
    condvars = set()
    for i in site_idx:
        condvars |= _vc(body[i][1][0])
    flat = [s for i, s in enumerate(body) if i not in site_idx and s[0] != "if"]
    A = set(condvars)
    changed = True
    while changed:
        changed = False
        for s in flat:
            if s[1] in A and not (_reads(s) - {s[1]}) <= A:
                A |= _reads(s) - {s[1]}
                changed = True
    conditioned = [s for s in flat if _vc(s[3] if s[0] != "func" else s[4]) & avars]
    D = set(A)
    changed = True
    while changed:
        changed = False
        for s in flat:
            if s not in conditioned and s[1] not in D and (_reads(s) - {s[1]}) & D:
                D.add(s[1])
                changed = True
    inside = any((_reads(s) - avars - {s[1]}) & D for s in conditioned)
    return D, inside


def shape_keys(ab, failing_goals):
    """signature of the open finding D24: the assignments guarded by the stand-in draw read nothing the condition
    depends on, and every failing goal is a MIXED moment with a variable the condition depends on (the stand-in is
    independent of those variables, the real event is not)"""
    D, inside = closure(ab)
    if inside or not failing_goals:
        return set()
    for g in failing_goals:
        vs = {v for v, _e in absyn.mono_of(g)[0][1]}
        if not vs & D:
            return set()
    return {"D24"}


def _prod(xs):
    out = F(1)
    for x in xs:
        out *= x
    return out
