"""Building blocks shared by the per-property checks: corpus -> Polar jobs -> traces -> TLC verdicts."""
import glob
import json
import os
import random
from fractions import Fraction as F

from . import absyn, gen, pool, tlc

VERIF = os.path.dirname(os.path.dirname(os.path.abspath(__file__)))
REPO = os.environ.get("POLAR_REPO", "/repo")


# ------------------------------------------------------------------------------------------------
# corpus

def corpus_files():
    """hand-written shape corpus (/verif/corpus/*.prob) and the repository's benchmark files"""
    items = []
    for path in sorted(glob.glob(os.path.join(VERIF, "corpus", "*.prob"))):
        items.append(file_item(path, "corpus"))
    return items


def benchmark_files(limit=None):
    items = []
    pats = [os.path.join(REPO, "tests", "benchmarks", "*.prob"),
            os.path.join(REPO, "benchmarks", "*", "*.prob"),
            os.path.join(REPO, "benchmarks", "*.prob")]
    for pat in pats:
        for path in sorted(glob.glob(pat)):
            items.append(file_item(path, "bench"))
    return items[:limit] if limit else items


def file_item(path, kind):
    text = open(path).read()
    meta = {}
    for line in text.splitlines():
        if line.startswith("#@"):
            k, _, v = line[2:].partition(":")
            meta[k.strip()] = v.strip()
    name = os.path.splitext(os.path.basename(path))[0]
    goals = [g.strip() for g in meta["goals"].split(",")] if "goals" in meta else None
    if goals and kind == "corpus":
        import re as _re
        names = []
        for g in goals:
            for v in _re.findall(r"[A-Za-z_]\w*", g):
                if v not in names:
                    names.append(v)
        goals = more_goals(goals, names, cap=7)
    it = {"id": f"{kind}-{name}", "text": text, "T": None, "origin": path,
          "goals": goals,
          "points": json.loads(meta["points"]) if "points" in meta else "auto",
          "meta": meta}
    return it


def generated(seed, count, profile=None, maxdeg=2, ngoals=6, prefix="gen"):
    items = []
    i = -1
    while len(items) < count:
        i += 1
        s = seed * 100003 + i
        g = gen.Gen(s, profile)
        T, params = g.gen()
        if gen.paths(T["body"]) ** 3 > 6000:
            continue
        rng = random.Random(s + 1)
        text = gen.render(gen.to_text_template(T), types=g.types)
        items.append({"id": f"{prefix}-{seed}-{i}", "text": text, "T": T, "params": params, "types": g.types,
                      "points": gen.choose_points(params, rng), "goals": gen.default_goals(T, rng, maxdeg, ngoals),
                      "origin": f"generator seed={s}"})
    return items


# ------------------------------------------------------------------------------------------------

def val_claims(t, value, base):
    """turn one reported value into a claim (or None, reason) ; base: dict with the claim's other fields"""
    if "q" in value:
        return dict(base, t=t, val=F(value["q"])), None
    if "approx" in value:
        x = F(value["approx"])
        if abs(F(value.get("im", "0"))) > F(1, 10 ** 30):
            return None, "complex"
        eps = max(abs(x), 1) * F(1, 10 ** 40)
        tt = {"mom": "momI"}.get(t)
        if tt is None:
            return None, "approx-unsupported"
        return dict(base, t=tt, lo=x - eps, hi=x + eps), None
    if "undef" in value:
        return None, "undef"
    if "absprob" in value:
        # parametric in probabilities of abstracted conditions (each in [0, 1]): enclosure when there is one
        if "lo" in value and t == "mom":
            return dict(base, t="momI", lo=F(value["lo"]), hi=F(value["hi"]), tag=str(base.get("tag", "")) + "(abstracted)"), None
        return None, "abstracted_probability"
    if "free" in value:
        return None, "free"
    if "float" in value:
        return None, "float"
    return None, "unknown"


def surrogate_ok(P, poly):
    """a monomial may be claimed on a program with surrogate draws if its degree in the continuous-tainted variables
    does not exceed the order up to which the surrogates match"""
    return "tainted" not in P or sum(e for v, e in poly[0][1] if v in P["tainted"]) <= P.get("order", 5)


def source_program(item, res, pi):
    """abstract source program for point pi: the generator's own program when there is one (ground truth
    for the text), otherwise Polar's parsed program as exported (then the parser is trusted here and
    judged by C19)."""
    if item.get("T") is not None:
        pt = res["points_used"][pi]
        P = gen.instantiate(item["T"], pt)
        P = dict(P)
        P["s0"] = {k: v for k, v in P["s0"].items()}
        if absyn.has_cont(P):
            degs = [sum(e for _v, e in absyn.mono_of(g)[0][1]) for g in (item.get("goals") or [])]
            try:
                return absyn.surrogate_program(P, order=5 if max(degs + [0]) > 3 else 3)
            except absyn.NotAffine:
                return None
        return P
    if "parsed" not in res:
        if "parsed_cont" in res:
            # Normal / Uniform / Laplace draws: moment-matched finite laws (absyn.prog_cont); None if the program is not
            # affine in its continuous draws or a condition reads them
            try:
                degs = [sum(e for _v, e in absyn.mono_of(g)[0][1]) for g in (res.get("goals_used") or [])]
                return absyn.prog_cont(res["parsed_cont"][pi], order=5 if max(degs + [0]) > 3 else 3)
            except (absyn.NotAffine, ValueError, KeyError, ZeroDivisionError):
                return None
        return None
    return absyn.prog(res["parsed"][pi])


def make_jobs(items, want, N, settings=None, timeout=150, extra=None):
    jobs = []
    for it in items:
        st = dict(settings or {})
        j = {"kind": "analyze", "id": it["id"], "text": it["text"], "goals": it.get("goals") or "auto",
             "points": it.get("points", "auto"), "N": N, "want": list(want),
             "settings": {k: v for k, v in st.items() if not k.startswith("__")}, "timeout": timeout}
        if st.get("__force_cyclic"):
            j["force_cyclic"] = True
        if extra:
            j.update(extra)
        for k in ("dparam", "term_goals", "stat_goals", "K", "force_cyclic", "user_typed", "tail_goals", "solvability_check"):
            if k in it:
                j[k] = it[k]
        j["want"] += [w for w in it.get("want_extra", []) if w not in j["want"]]
        if it.get("timeout"):
            j["timeout"] = it["timeout"]
        jobs.append(j)
    return jobs


def run_tlc(traces, workers=16, timeout=None):
    if not traces:
        return {}, {"states": 0, "distinct": 0, "tlc_runs": 0, "tlc_wall_s": 0.0, "D": []}, {}
    quick = os.environ.get("VERIF_TIER_EFFECTIVE", "quick") == "quick"
    if timeout is None:
        # a TLC run that does not finish is not judged (counted as tlc_timeouts); the quick tier must stay short
        timeout = 240 if quick else 1500
    return tlc.run_batches(traces, workers=workers, timeout=timeout, chunk=25 if quick else 60)


# ------------------------------------------------------------------------------------------------
# generic trace construction: a list of claim builders contributes programs and claims to one trace per
# (item, parameter point)

class TraceCtx:
    def __init__(self, it, res, pi, Nt):
        self.it, self.res, self.pi, self.N = it, res, pi, Nt
        self.progs = []          # abstract programs (python form)
        self.steps = [[] for _ in range(Nt + 1)]
        self.notes = {}
        self.direct = []         # violations visible without the spec (e.g. a result with a free symbol)

    def add_prog(self, P):
        self.progs.append(P)
        return len(self.progs)    # 1-based index

    def claim(self, n, cl):
        if 0 <= n <= self.N:
            self.steps[n].append(cl)

    def note(self, k, v=1):
        self.notes[k] = self.notes.get(k, 0) + v


def horizon_for(it, N):
    if it.get("T") is not None:
        return min(N, gen.horizon(it["T"])[0])
    return N


def build(items, results, N, builders, suffix="", horizon=None):
    """builders: functions (ctx) -> None that add programs/claims; a builder may raise Skip.
    horizon: optional dict (item id, point index) -> N to use instead of the default horizon"""
    traces, meta, notes = [], {}, {}
    for it in items:
        res = results.get(it["id"])
        if res is None or res.get("stage") in ("parse", "timeout", "crash", "worker", "unsupported"):
            notes["no_result"] = notes.get("no_result", 0) + 1
            continue
        for pi, pt in enumerate(res.get("points_used", [])):
            ctx = TraceCtx(it, res, pi, horizon[(it["id"], pi)] if horizon and (it["id"], pi) in horizon else horizon_for(it, N))
            try:
                for b in builders:
                    b(ctx)
            except SkipTrace as ex:
                notes[str(ex)] = notes.get(str(ex), 0) + 1
                continue
            for k, v in ctx.notes.items():
                notes[k] = notes.get(k, 0) + v
            for d in ctx.direct:
                notes.setdefault("direct", []).append((it["id"], pi, d))
            if not ctx.progs or not any(ctx.steps):
                continue
            allvars = []
            for P in ctx.progs:
                for v in P["vars"]:
                    if v not in allvars:
                        allvars.append(v)
            tid = f"{it['id']}-p{pi}{suffix}"
            traces.append({"id": tid, "vars": allvars, "progs": ctx.progs, "N": ctx.N, "steps": ctx.steps})
            meta[tid] = (it, pi)
    return traces, meta, notes


class SkipTrace(Exception):
    pass


def b_source(ctx):
    P = source_program(ctx.it, ctx.res, ctx.pi)
    if P is None:
        raise SkipTrace("source_unsupported")
    ctx.src = ctx.add_prog(P)
    ctx.srcP = P


def b_moments(ctx, key="goals", kind="mom"):
    """Polar's closed forms evaluated at n = 0..N bound to Moment(goal) of the source program"""
    if ctx.res.get("stage"):
        raise SkipTrace("refused")
    P = ctx.srcP
    for g, go in ctx.res.get(key, {}).items():
        if "values" not in go:
            ctx.note("goal_exception")
            continue
        poly = absyn.mono_of(g)
        if any(v not in P["vars"] for v, _ in poly[0][1]):
            ctx.note("goal_var_not_in_source")
            continue
        if "tainted" in P:
            # continuous draws were replaced by laws with the same moments up to order 3 / 5
            if not surrogate_ok(P, poly):
                ctx.note("goal_degree_beyond_surrogate")
                continue
            ctx.note("claims_on_moment_matched_surrogates")
        for n, val in enumerate(go["values"][ctx.pi][:ctx.N + 1]):
            cl, why = val_claims("mom", val, {"pi": ctx.src, "poly": poly, "tag": g})
            if cl is None:
                ctx.note(why)
                if why == "free":
                    ctx.direct.append({"clause": "free-symbol", "goal": g, "n": n, "polar_value": val})
                continue
            if cl["t"] == "momI":
                ctx.note("approx")
            ctx.claim(n, cl)


POISON = [F(7919), F(7927), F(7933), F(7937), F(7949), F(7951), F(7963), F(7993), F(8009), F(8011), F(8017), F(8039)]


def poisoned(P, keep):
    """give every variable that the program does not initialise and that is not a source variable a
    distinctive start value: an auxiliary introduced by a pass must never be read before it is written"""
    P = dict(P)
    s0 = dict(P["s0"])
    k = 0
    for v in P["vars"]:
        if v not in s0 and v not in keep:
            s0[v] = POISON[k % len(POISON)] + 2 * (k // len(POISON))
            k += 1
    P["s0"] = s0
    return P


def b_normalized(ctx):
    res = ctx.res
    if res.get("stage") or "normalized" not in res:
        raise SkipTrace("no_normalized" if not res.get("stage") else "refused")
    # every variable without a given start value (auxiliaries, and source variables the program initialises
    # itself) starts at a distinctive value
    P = poisoned(absyn.prog(res["normalized"][ctx.pi]), set())
    ctx.norm = ctx.add_prog(P)
    ctx.normP = P


def b_recs(ctx):
    """C03: every equation of every recurrence system, as expectation identity and pointwise"""
    seen = set()
    eqs = []
    for g, go in ctx.res.get("goals", {}).items():
        recs = go.get("recs")
        if not recs:
            continue
        for eq in recs["points"][ctx.pi]["eqs"]:
            key = json.dumps(eq["lhs"])
            if key in seen:
                continue
            seen.add(key)
            lhs, rhsp = absyn.poly(eq["lhs"]), absyn.poly(eq["rhsp"])
            name = "*".join(f"{v}**{e}" if e != 1 else v for v, e in lhs[0][1]) if lhs else "0"
            init = absyn.sc(eq["init"])
            ctx.claim(0, {"t": "mom", "pi": ctx.norm, "poly": lhs, "val": init[0] if isinstance(init, tuple) else init,
                          "tag": "init:" + name})
            eqs.append({"lhs": lhs, "rhsp": rhsp, "tag": name})
            for n in range(1, ctx.N + 1):
                ctx.claim(n, {"t": "recE", "pi": ctx.norm, "lhs": lhs, "rhsp": rhsp, "tag": "recE:" + name})
    if eqs:
        for n in range(1, ctx.N + 1):
            ctx.claim(n, {"t": "recpts", "pi": ctx.norm, "eqs": eqs, "tag": "pointwise"})
    ctx.note("equations", len(seen))


def live_start(P, guarded=False):
    """variables whose start value may be read before the program assigns them (flat IR or structured code);
    guarded: the source loop has a guard (then what every conditional statement carries is the guard)"""
    live, assigned = set(), set()

    def pvars(p):
        return {v for _, m in p for v, _ in m}

    def cvars(c):
        if c[0] == "atom":
            return pvars(c[1]) | pvars(c[3])
        if c[0] in ("and", "or"):
            return cvars(c[1]) | cvars(c[2])
        if c[0] == "not":
            return cvars(c[1])
        return set()

    def conj(c):
        return conj(c[1]) | conj(c[2]) if c[0] == "and" else ({repr(c)} if c[0] != "true" else set())
    flat = [s_ for s_ in P["body"] if s_[0] in ("assign", "draw")]
    conditional = [s_ for s_ in flat if s_[3] != ("true",)]     # copies of old values made for conditions stay unconditional
    common = set.intersection(*[conj(s_[3]) for s_ in conditional]) if guarded and conditional and len(flat) == len(P["body"]) else set()

    def keeps(s_):
        """the default is read when the condition is false.  Keeping itself is no read if the condition is only what
        every statement of the body carries (the loop guard): the frozen store is not a new value.  Under any further
        condition the variable goes on holding its start value, which is then a value it takes."""
        if s_[3] == ("true",):
            return set()
        if s_[4] != s_[1]:
            return {s_[4]}
        return {s_[4]} if conj(s_[3]) - common else set()

    def walk(stmts, assigned):
        for s_ in stmts:
            if s_[0] == "assign":
                reads = set().union(*[pvars(e) for _, e in s_[2]]) | cvars(s_[3]) | keeps(s_)
                live.update(reads - assigned)
                assigned = assigned | {s_[1]}
            elif s_[0] == "draw":
                reads = cvars(s_[3]) | keeps(s_)
                live.update(reads - assigned)
                assigned = assigned | {s_[1]}
            elif s_[0] == "simul":
                reads = set()
                for it in s_[1]:
                    if it[0] == "assign":
                        reads |= set().union(*[pvars(e) for _, e in it[2]])
                live.update(reads - assigned)
                assigned = assigned | {it[1] for it in s_[1]}
            elif s_[0] == "if":
                outs = []
                for c in s_[1]:
                    live.update(cvars(c) - assigned)
                for b in list(s_[2]) + [s_[3]]:
                    outs.append(walk(b, set(assigned)))
                assigned = set.intersection(*outs) if outs else assigned
        return assigned
    a = walk(P["init"], set())
    live.update(cvars(P["guard"]) - a)
    walk(P["body"], a)
    return live


def b_types(ctx):
    """C05: inferred finite types contain every value ever held (checked after every statement)"""
    user = set((ctx.it.get("types") or {}).keys()) | set(ctx.res.get("user_typed", []))
    live = live_start(ctx.normP, guarded=str(ctx.res.get("original_loop_guard", "true")).lower() not in ("true", "none"))
    k = 0
    for v, vals in ctx.res.get("typedefs", {}).items():
        if v in user or v not in ctx.normP["vars"]:
            continue
        if any(isinstance(x, str) and x.startswith("sym:") for x in vals):
            continue
        k += 1
        for n in range(0, ctx.N + 1):
            ctx.claim(n, {"t": "supp", "pi": ctx.norm, "v": v, "vals": [F(x) for x in vals], "tag": v,
                          "start": ctx.normP["s0"][v], "exempt": v not in live})
    ctx.note("typed_vars", k)


def b_passes(ctx):
    """C02: the program after each pass has, at every iteration boundary, the same joint law on the source
    variables as the source program"""
    res = ctx.res
    src_vars = [v for v in ctx.srcP["vars"] if not v.startswith("_")]
    stages = []
    if "parsed" in res and ctx.it.get("T") is not None:
        stages.append(("parse", res["parsed"][ctx.pi]))
    for sn in res.get("passes", []):
        if "progs" in sn:
            stages.append((sn["pass"], sn["progs"][ctx.pi]))
        else:
            ctx.note("pass_unsupported")
    last = None
    for name, Pj in stages:
        key = json.dumps(Pj, sort_keys=True)
        if key == last:
            ctx.note("pass_noop")
            continue
        last = key
        P = poisoned(absyn.prog(Pj), set(ctx.srcP["vars"]))
        idx = ctx.add_prog(P)
        common = [v for v in src_vars if v in P["vars"]]
        for n in range(0, ctx.N + 1):
            ctx.claim(n, {"t": "equiv", "a": ctx.src, "b": idx, "va": common, "vb": common, "tag": name})
        ctx.note("passes_checked")


def b_parse_equiv(ctx):
    """C19: Polar's parse of the rendered text has the same law on the source variables as the abstract program"""
    if ctx.it.get("T") is None or "parsed" not in ctx.res:
        return
    P = poisoned(absyn.prog(ctx.res["parsed"][ctx.pi]), set(ctx.srcP["vars"]))
    idx = ctx.add_prog(P)
    common = [v for v in ctx.srcP["vars"] if v in P["vars"]]
    if len(common) != len(ctx.srcP["vars"]):
        ctx.direct.append({"clause": "parse lost variables", "missing": sorted(set(ctx.srcP["vars"]) - set(P["vars"]))})
    for n in range(0, ctx.N + 1):
        ctx.claim(n, {"t": "equiv", "a": ctx.src, "b": idx, "va": common, "vb": common, "tag": "parse"})


def b_term(ctx):
    """C09: moment-given-termination sequence = E[M ; not guard] / P(not guard) for the source program"""
    if ctx.res.get("stage"):
        raise SkipTrace("refused")
    P = ctx.srcP
    if P["guard"] == ("true",):
        raise SkipTrace("no_guard")
    notg = ("not", P["guard"])
    for g, to in ctx.res.get("term", {}).items():
        if "values" not in to:
            ctx.note("term_exception")
            continue
        poly = absyn.mono_of(g)
        if any(v not in P["vars"] for v, _ in poly[0][1]):
            continue
        for n, val in enumerate(to["values"][ctx.pi][:ctx.N + 1]):
            for lag in (0, 1):
                base = {"t": "cmom", "pi": ctx.src, "poly": poly, "cond": notg, "lag": lag,
                        "tag": ("lagged:" if lag else "aligned:") + g}
                if "q" in val:
                    ctx.claim(n, dict(base, val=F(val["q"]), undef=0))
                elif "undef" in val:
                    ctx.claim(n, dict(base, undef=1))
                elif "free" in val and n == 0 and all(x.startswith("_old") for x in val["free"]):
                    # the guard is evaluated on the saved old value, which has no value before the first iteration
                    if lag == 0:
                        ctx.claim(n, dict(base, undef=1))
                else:
                    if lag == 0:
                        ctx.note("term_other")
                        if "free" in val:
                            ctx.direct.append({"clause": "free-symbol", "goal": g, "n": n, "polar_value": val})


def b_sens(ctx):
    """C10: both sensitivity methods equal the derivative of the exact moment w.r.t. the parameter
    (dual-number part of Moment in the spec)"""
    if ctx.res.get("stage"):
        raise SkipTrace("refused")
    P = ctx.srcP
    for g, so in ctx.res.get("sens", {}).items():
        poly = absyn.mono_of(g)
        if any(v not in P["vars"] for v, _ in poly[0][1]):
            continue
        for method in ("diff_closed_form", "diff_recurrences"):
            if method not in so:
                ctx.note(method + "_exception")
                continue
            for n, val in enumerate(so[method][ctx.pi][:ctx.N + 1]):
                if "q" in val:
                    ctx.claim(n, {"t": "mom", "pi": ctx.src, "poly": poly, "val": F(val["q"]), "part": "b",
                                  "tag": f"{method}:{g}"})
                else:
                    ctx.note("sens_" + next(iter(val)))
                    if "free" in val:
                        ctx.direct.append({"clause": "free-symbol", "goal": g, "n": n, "method": method, "polar_value": val})


def b_sens_cli(ctx):
    """C10: the values the sensitivity action prints (both methods, --at_n) equal the derivative of the exact moment"""
    if ctx.res.get("stage"):
        raise SkipTrace("refused")
    P = ctx.srcP
    for method, per_goal in ctx.res.get("sens_cli", {}).items():
        for g, vals in per_goal.items():
            poly = absyn.mono_of(g)
            if any(v not in P["vars"] for v, _ in poly[0][1]):
                continue
            for n, val in enumerate(vals[ctx.pi][:ctx.N + 1]):
                if "q" in val:
                    ctx.claim(n, {"t": "mom", "pi": ctx.src, "poly": poly, "val": F(val["q"]), "part": "b",
                                  "tag": f"cli_{method}:{g}"})
                else:
                    ctx.note("sens_cli_" + next(iter(val)))


def b_stats(ctx):
    """C11: central moments and cumulants from Polar's conversion formulas vs the definitions on the exact law"""
    if ctx.res.get("stage"):
        raise SkipTrace("refused")
    P = ctx.srcP
    for g, co in ctx.res.get("stats", {}).items():
        poly = absyn.mono_of(g)
        if any(v not in P["vars"] for v, _ in poly[0][1]):
            continue
        for kind, key in (("central", "centrals"), ("cumulant", "cumulants"), ("cumulant", "cumulants_at_n")):
            if key not in co:
                if key != "cumulants_at_n":
                    ctx.note("stats_exception")
                continue
            for k, vals in co[key].items():
                for n, val in enumerate(vals[ctx.pi][:ctx.N + 1]):
                    if "q" in val:
                        ctx.claim(n, {"t": kind, "pi": ctx.src, "poly": poly, "k": int(k), "val": F(val["q"]),
                                      "tag": f"{kind}{k}:{g}" + ("@at_n" if key == "cumulants_at_n" else "")})
                    else:
                        ctx.note("stats_" + next(iter(val)))


def fixed_templates():
    """hand-written abstract programs (ground truth for their rendered text): shapes the random generator
    rarely produces -- simultaneous assignments with draws / constants and cross-reads, long decimal literals"""
    ONE = ()

    def V(v, e=1):
        return ((v, e),)

    def asg(v, poly):
        return ("assign", v, [(F(1), poly)], ("true",), v)
    T = []
    # x, y = DiscreteUniform(1,3), x   (y reads the OLD x)
    T.append(("simul_draw_read", {
        "vars": ["s", "x", "y"], "s0": {}, "guard": ("true",),
        "init": [asg("x", [(F(2), ONE)]), asg("y", []), asg("s", [])],
        "body": [("simul", [("draw", "x", ("duniform", 1, 3), ("true",), "x"), asg("y", [(F(1), V("x"))])]),
                 asg("s", [(F(1), V("s")), (F(1), (("x", 1), ("y", 1)))])]}, ["x*y", "s", "y", "y**2"]))
    # cnt, last = 0, cnt
    T.append(("simul_const_read", {
        "vars": ["cnt", "last", "total"], "s0": {}, "guard": ("true",),
        "init": [asg("cnt", []), asg("last", []), asg("total", [])],
        "body": [("assign", "cnt", [(F(1, 2), [(F(1), V("cnt")), (F(1), ONE)]), (F(1, 2), [(F(1), V("cnt"))])], ("true",), "cnt"),
                 ("draw", "f", ("bernoulli", F(1, 4)), ("true",), "f"),
                 ("if", [("atom", [(F(1), V("f"))], "==", [(F(1), ONE)])],
                  [[("simul", [asg("cnt", []), asg("last", [(F(1), V("cnt"))])]),
                    asg("total", [(F(1), V("total")), (F(1), V("last"))])]], [])]}, ["cnt", "last", "total", "cnt*last"]))
    T[-1][1]["vars"].append("f")
    T[-1][1]["init"].append(asg("f", []))
    # a, b, c = b + u, 1, a + 2*b
    T.append(("simul_three", {
        "vars": ["a", "b", "c", "u"], "s0": {}, "guard": ("true",),
        "init": [asg("a", []), asg("b", [(F(2), ONE)]), asg("c", []), asg("u", [])],
        "body": [("draw", "u", ("bernoulli", F(1, 2)), ("true",), "u"),
                 ("simul", [asg("a", [(F(1), V("b")), (F(1), V("u"))]), asg("b", [(F(1), ONE)]),
                            asg("c", [(F(1), V("a")), (F(2), V("b"))])])]}, ["a", "c", "a*c", "c**2"]))
    # long decimal literals close to simple fractions
    T.append(("long_decimals", {
        "vars": ["x", "y"], "s0": {}, "guard": ("true",),
        "init": [asg("x", [(F(1), ONE)]), asg("y", [])],
        "body": [("assign", "x", [(F(142857142, 10 ** 9), [(F(33333333, 10 ** 8), V("x")), (F(1), ONE)]),
                                  (1 - F(142857142, 10 ** 9), [(F(1), V("x"))])], ("true",), "x"),
                 asg("y", [(F(1), V("y")), (F(1666666667, 10 ** 10), V("x"))])]}, ["x", "y", "x**2"]))
    # swap through a simultaneous assignment with a probabilistic alternative
    T.append(("simul_swap_choice", {
        "vars": ["x", "y"], "s0": {}, "guard": ("true",),
        "init": [asg("x", [(F(1), ONE)]), asg("y", [(F(3), ONE)])],
        "body": [("simul", [("assign", "x", [(F(1, 2), [(F(1), V("y"))]), (F(1, 2), [(F(1), V("x"))])], ("true",), "x"),
                            asg("y", [(F(1), V("x")), (F(1), V("y"))])])]}, ["x", "y", "x*y"]))
    def atom(v, op, c):
        return ("atom", [(F(1), V(v))], op, [(F(c), ONE)] if c else [])

    def inc(v, k=1):
        return asg(v, [(F(1), V(v)), (F(k), ONE)])
    # a later branch assigns a variable that only an EARLIER branch condition tests, then goes on
    T.append(("elif_assigns_earlier_cond_var", {
        "vars": ["s", "u", "y", "z"], "s0": {}, "guard": ("true",),
        "init": [asg("s", []), asg("u", []), asg("y", []), asg("z", [])],
        "body": [("draw", "u", ("bernoulli", F(1, 2)), ("true",), "u"),
                 ("if", [atom("s", "==", 1), atom("u", "==", 1)],
                  [[inc("y")], [asg("s", [(F(1), ONE)]), inc("z", 2)]], [])]}, ["y", "z", "s", "s*z"]))
    # the same non-reduced atom tested twice, its right-hand side variable reassigned in between
    T.append(("same_atom_twice", {
        "vars": ["a", "b", "x", "y"], "s0": {}, "guard": ("true",),
        "init": [asg("a", []), asg("b", []), asg("x", []), asg("y", [])],
        "body": [("draw", "x", ("bernoulli", F(1, 2)), ("true",), "x"),
                 ("if", [("atom", [(F(1), V("x"))], ">", [(F(1), V("y"))])], [[inc("a")]], []),
                 ("draw", "y", ("bernoulli", F(1, 3)), ("true",), "y"),
                 ("if", [("atom", [(F(1), V("x"))], ">", [(F(1), V("y"))])], [[inc("b")]], [])]}, ["a", "b", "a*b", "b*x"]))
    # two different non-reduced atoms over a shared variable, the variable reassigned, both atoms tested again
    def xy(op, c):
        return ("atom", [(F(1), V("x")), (F(1), V("y"))], op, [(F(c), ONE)] if c else [])
    T.append(("two_atoms_then_reuse", {
        "vars": ["a", "b", "f", "g", "x", "y"], "s0": {}, "guard": ("true",),
        "init": [asg("a", []), asg("b", []), asg("f", []), asg("g", []), asg("x", []), asg("y", [])],
        "body": [("draw", "y", ("bernoulli", F(1, 2)), ("true",), "y"),
                 ("if", [xy(">", 0)], [[inc("a")]], []),
                 ("if", [xy(">", 1)], [[inc("b")]], []),
                 ("draw", "x", ("bernoulli", F(1, 3)), ("true",), "x"),
                 ("if", [xy(">", 1)], [[inc("f")]], []),
                 ("if", [xy(">", 0)], [[inc("g")]], [])]}, ["f", "g", "a", "b", "f*g"]))
    T.append(("two_orderings_then_reuse", {
        "vars": ["a", "b", "f", "x", "y"], "s0": {}, "guard": ("true",),
        "init": [asg("a", []), asg("b", []), asg("f", []), asg("x", [(F(1), ONE)]), asg("y", [])],
        "body": [("draw", "y", ("duniform", 0, 2), ("true",), "y"),
                 ("if", [("atom", [(F(1), V("x"))], ">=", [(F(1), V("y"))])], [[inc("a")]], []),
                 ("if", [("atom", [(F(1), V("x"))], ">", [(F(1), V("y"))])], [[inc("b")]], []),
                 ("draw", "x", ("duniform", 0, 2), ("true",), "x"),
                 ("if", [("atom", [(F(1), V("x"))], ">", [(F(1), V("y"))])], [[inc("f")]], [])]}, ["f", "a", "b", "f*b"]))
    # a finitely valued variable whose two values lie in [0, 1] but are not 0 / 1; its square survives
    T.append(("fraction_valued_flag", {
        "vars": ["energy", "pos", "step"], "s0": {}, "guard": ("true",),
        "init": [asg("energy", []), asg("pos", []), asg("step", [(F(1), ONE)])],
        "body": [asg("energy", [(F(1), V("energy")), (F(1), V("step", 2))]),
                 ("assign", "step", [(F(1, 2), [(F(1, 2), ONE)]), (F(1, 2), [(F(1), ONE)])], ("true",), "step"),
                 asg("pos", [(F(1), V("pos")), (F(1), V("step"))])]}, ["energy", "pos", "step**2", "energy*step"]))
    # a user-written disjunction whose two sides overlap on the same variable
    T.append(("overlapping_or", {
        "vars": ["hits", "x"], "s0": {}, "guard": ("true",),
        "init": [asg("hits", []), asg("x", [])],
        "body": [("draw", "x", ("duniform", 0, 3), ("true",), "x"),
                 ("if", [("or", atom("x", "<=", 1), ("and", atom("x", ">=", 1), atom("x", "<=", 2)))], [[inc("hits")]], [])]},
              ["hits", "hits**2", "hits*x"]))
    # constants defined from other constants that the initial block reassigns afterwards
    T.append(("init_constant_chain", {
        "vars": ["a", "b", "c", "x", "y"], "s0": {}, "guard": ("true",),
        "init": [asg("a", [(F(1), ONE)]), asg("b", [(F(1), V("a")), (F(1), ONE)]), asg("c", [(F(2), V("b"))]),
                 asg("a", [(F(5), ONE)]), asg("x", []), asg("y", [(F(1), ONE)])],
        "body": [("assign", "x", [(F(1, 2), [(F(1), V("x")), (F(1), V("c"))]), (F(1, 2), [(F(1), V("x")), (F(1), V("a"))])], ("true",), "x"),
                 asg("y", [(F(1), V("y")), (F(1), V("b"))])]}, ["x", "y", "x*y", "x**2"]))
    items = []
    for name, P, goals in T:
        items.append({"id": "tmpl-" + name, "text": gen.render(P), "T": P, "params": [], "types": None, "points": [{}],
                      "goals": more_goals(goals, P["vars"]), "origin": "fixed template " + name})
    # hierarchical random initialisation: the text uses a draw whose parameter mentions an earlier initial draw, the
    # abstract program spells the same law out with a branch (which Polar's own syntax does not allow in the initial block)
    xeq0 = ("atom", [(F(1), V("x"))], "==", [])
    hier = {"vars": ["c", "s", "x"], "s0": {}, "guard": ("true",),
            "init": [("draw", "x", ("bernoulli", F(1, 2)), ("true",), "x"),
                     ("if", [xeq0], [[asg("c", [(F(1), ONE)])]], [("draw", "c", ("bernoulli", F(1, 2)), ("true",), "c")]),
                     asg("s", [])],
            "body": [asg("s", [(F(1), V("s")), (F(1), (("c", 1), ("x", 1)))])]}
    items.append({"id": "tmpl-hierarchical_init", "T": hier, "params": [], "types": None, "points": [{}], "fixed_text": True,
                  "text": "x = Bernoulli(1/2)\nc = Bernoulli(1 - x/2)\ns = 0\nwhile true:\n    s = s + c*x\nend\n",
                  "goals": ["c*x", "s", "c*s", "s**2", "c", "x"], "origin": "fixed template hierarchical_init"})
    return items


def more_goals(goals, variables, cap=9):
    """the listed goals plus mixed second moments of the (few) program variables: many wrong results only show in a
    product of two variables that the listed goals happen not to contain"""
    vs = [v for v in variables if not v.startswith("_")][:5]
    out = list(goals)
    for i, a in enumerate(vs):
        for b in vs[i + 1:]:
            if len(out) >= cap:
                return out
            g = f"{a}*{b}"
            if g not in out and f"{b}*{a}" not in out:
                out.append(g)
    return out


def b_tail(ctx):
    """C11: reported tail bounds are valid for the exact law whenever the stated assumption holds on the support
    (the spec evaluates the assumption and skips the clause otherwise)"""
    if ctx.res.get("stage"):
        raise SkipTrace("refused")
    P = ctx.srcP
    for rec in ctx.res.get("tail", []):
        poly = absyn.mono_of(rec["monom"])
        if any(v not in P["vars"] for v, _ in poly[0][1]):
            continue
        a = F(rec["a"])
        for kind, t in (("upper", "tailU"), ("lower", "tailL")):
            for n, val in enumerate(rec[kind][:ctx.N + 1]):
                if "q" in val:
                    ctx.claim(n, {"t": t, "pi": ctx.src, "poly": poly, "thr": a, "val": F(val["q"]),
                                  "tag": f"{kind}:P({rec['monom']} vs {rec['a']})"})
                else:
                    ctx.note("tail_" + next(iter(val)))
