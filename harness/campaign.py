"""Building blocks shared by the per-property checks: corpus -> Polar jobs -> traces -> TLC verdicts."""
import glob
import json
import os
import random
from fractions import Fraction as F

from . import absyn, gen, pool, tlc

VERIF = os.path.dirname(os.path.dirname(os.path.abspath(__file__)))
REPO = os.environ.get("POLAR_REPO", "/repo")


# ------------------------------------------------------------------------------------------------
# corpus

def corpus_files():
    """hand-written shape corpus (/verif/corpus/*.prob) and the repository's benchmark files"""
    items = []
    for path in sorted(glob.glob(os.path.join(VERIF, "corpus", "*.prob"))):
        items.append(file_item(path, "corpus"))
    return items


def benchmark_files(limit=None):
    items = []
    pats = [os.path.join(REPO, "tests", "benchmarks", "*.prob"),
            os.path.join(REPO, "benchmarks", "*", "*.prob"),
            os.path.join(REPO, "benchmarks", "*.prob")]
    for pat in pats:
        for path in sorted(glob.glob(pat)):
            items.append(file_item(path, "bench"))
    return items[:limit] if limit else items


def file_item(path, kind):
    text = open(path).read()
    meta = {}
    for line in text.splitlines():
        if line.startswith("#@"):
            k, _, v = line[2:].partition(":")
            meta[k.strip()] = v.strip()
    name = os.path.splitext(os.path.basename(path))[0]
    it = {"id": f"{kind}-{name}", "text": text, "T": None, "origin": path,
          "goals": [g.strip() for g in meta["goals"].split(",")] if "goals" in meta else None,
          "points": json.loads(meta["points"]) if "points" in meta else "auto",
          "meta": meta}
    return it


def generated(seed, count, profile=None, maxdeg=2, ngoals=6, prefix="gen"):
    items = []
    i = -1
    while len(items) < count:
        i += 1
        s = seed * 100003 + i
        g = gen.Gen(s, profile)
        T, params = g.gen()
        if gen.paths(T["body"]) ** 3 > 6000:
            continue
        rng = random.Random(s + 1)
        text = gen.render(gen.to_text_template(T), types=g.types)
        items.append({"id": f"{prefix}-{seed}-{i}", "text": text, "T": T, "params": params, "types": g.types,
                      "points": gen.choose_points(params, rng), "goals": gen.default_goals(T, rng, maxdeg, ngoals),
                      "origin": f"generator seed={s}"})
    return items


# ------------------------------------------------------------------------------------------------

def val_claims(t, value, base):
    """turn one reported value into a claim (or None, reason) ; base: dict with the claim's other fields"""
    if "q" in value:
        return dict(base, t=t, val=F(value["q"])), None
    if "approx" in value:
        x = F(value["approx"])
        if abs(F(value.get("im", "0"))) > F(1, 10 ** 30):
            return None, "complex"
        eps = max(abs(x), 1) * F(1, 10 ** 40)
        tt = {"mom": "momI"}.get(t)
        if tt is None:
            return None, "approx-unsupported"
        return dict(base, t=tt, lo=x - eps, hi=x + eps), None
    if "undef" in value:
        return None, "undef"
    if "free" in value:
        return None, "free"
    if "float" in value:
        return None, "float"
    return None, "unknown"


def source_program(item, res, pi):
    """abstract source program for point pi: the generator's own program when there is one (ground truth
    for the text), otherwise Polar's parsed program as exported (then the parser is trusted here and
    judged by C19)."""
    if item.get("T") is not None:
        pt = res["points_used"][pi]
        P = gen.instantiate(item["T"], pt)
        P = dict(P)
        P["s0"] = {k: v for k, v in P["s0"].items()}
        return P
    if "parsed" not in res:
        return None
    return absyn.prog(res["parsed"][pi])


def make_jobs(items, want, N, settings=None, timeout=150, extra=None):
    jobs = []
    for it in items:
        j = {"kind": "analyze", "id": it["id"], "text": it["text"], "goals": it.get("goals") or "auto",
             "points": it.get("points", "auto"), "N": N, "want": list(want), "settings": settings or {},
             "timeout": timeout}
        if extra:
            j.update(extra)
        for k in ("dparam", "term_goals", "stat_goals", "K"):
            if k in it:
                j[k] = it[k]
        jobs.append(j)
    return jobs


def run_tlc(traces, workers=16, timeout=3000):
    if not traces:
        return {}, {"states": 0, "distinct": 0, "tlc_runs": 0, "tlc_wall_s": 0.0, "D": []}, {}
    return tlc.run_batches(traces, workers=workers, timeout=timeout)
