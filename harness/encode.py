"""Encoding of abstract programs / claims into the JSON that spec/LoopTrace.tla reads.

Python-side abstract syntax (names instead of indices, Fractions instead of limb numbers):

  scalar : Fraction | int | (Fraction, Fraction)            -- a + b*eps
  poly   : list of (scalar, ((var, exp), ...))                -- sum of terms
  cond   : ("true",) | ("false",) | ("atom", poly, op, poly) | ("and", c, c) | ("or", c, c) | ("not", c)
  stmt   : ("assign", var, [(prob scalar, poly), ...], cond, default var)
         | ("draw", var, dist, cond, default var)
         | ("if", [cond, ...], [stmts, ...], else stmts)
         | ("simul", [assign or draw stmts])                   -- simultaneous assignment
         | ("func", var, "Sin"|"Cos"|"Exp", arg var or number, cond, default var)
  dist   : ("bernoulli", p) | ("categorical", [p, ...]) | ("duniform", lo, hi) | ("finite", [(x, p), ...])
  prog   : {"vars": [names], "s0": {name: scalar}, "init": stmts, "guard": cond, "body": stmts}

No semantics lives here: this module only changes representation.
"""
from fractions import Fraction
from math import gcd

BASE = 10000


class NotDadic(Exception):
    pass


def enc_nat(i):
    assert i >= 0
    out = []
    while i:
        out.append(i % BASE)
        i //= BASE
    return out


def dec_nat(limbs):
    v = 0
    for l in reversed(limbs):
        v = v * BASE + l
    return v


def enc_z(i):
    i = int(i)
    return {"s": 1 if i < 0 else 0, "m": enc_nat(abs(i))}


def enc_r(x, D):
    x = Fraction(x)
    k = 0
    num, den = x.numerator, x.denominator
    while den != 1:
        g = gcd(den, D)
        if g == 1:
            raise NotDadic(f"{x} is not a fraction over powers of {D}")
        # multiply by D: num*D/den
        num *= D
        g2 = gcd(num, den)
        num //= g2
        den //= g2
        k += 1
        if k > 200:
            raise NotDadic(str(x))
    return {"s": 1 if num < 0 else 0, "m": enc_nat(abs(num)), "k": k}


def dec_r(r, D):
    v = Fraction(dec_nat(r["m"]), D ** r["k"])
    return -v if r["s"] == 1 else v


def dec_s(s, D):
    return dec_r(s["a"], D), dec_r(s["b"], D)


def as_dual(x):
    if isinstance(x, tuple):
        return Fraction(x[0]), Fraction(x[1])
    return Fraction(x), Fraction(0)


def enc_s(x, D):
    a, b = as_dual(x)
    return {"a": enc_r(a, D), "b": enc_r(b, D)}


def radical(n):
    r, p = 1, 2
    n = abs(n)
    while p * p <= n:
        if n % p == 0:
            r *= p
            while n % p == 0:
                n //= p
        p += 1
    if n > 1:
        r *= n
    return r


class Encoder:
    """Encodes programs and claims of one trace; first collects all numbers to pick D."""

    def __init__(self, var_order):
        self.vars = list(var_order)
        self.idx = {v: i + 1 for i, v in enumerate(self.vars)}

    # ---- numbers occurring (to choose the denominator base) ----
    @staticmethod
    def numbers_poly(p):
        for c, _ in p:
            a, b = as_dual(c)
            yield a
            yield b

    def numbers_cond(self, c):
        if c[0] == "atom":
            yield from self.numbers_poly(c[1])
            yield from self.numbers_poly(c[3])
        elif c[0] in ("and", "or"):
            yield from self.numbers_cond(c[1])
            yield from self.numbers_cond(c[2])
        elif c[0] == "not":
            yield from self.numbers_cond(c[1])

    def numbers_dist(self, d):
        if d[0] == "bernoulli":
            yield from as_dual(d[1])
        elif d[0] == "categorical":
            for p in d[1]:
                yield from as_dual(p)
        elif d[0] == "duniform":
            yield Fraction(1, d[2] - d[1] + 1)
        elif d[0] == "finite":
            for x, p in d[1]:
                yield from as_dual(x)
                yield from as_dual(p)

    def numbers_stmts(self, stmts):
        for s in stmts:
            if s[0] == "assign":
                for p, e in s[2]:
                    yield from as_dual(p)
                    yield from self.numbers_poly(e)
                yield from self.numbers_cond(s[3])
            elif s[0] == "draw":
                yield from self.numbers_dist(s[2])
                yield from self.numbers_cond(s[3])
            elif s[0] == "simul":
                yield from self.numbers_stmts(s[1])
            elif s[0] == "func":
                for x, y in func_table(s[2], s[3]):
                    yield x
                    yield y
                yield from self.numbers_cond(s[4])
            elif s[0] == "if":
                for c in s[1]:
                    yield from self.numbers_cond(c)
                for b in s[2]:
                    yield from self.numbers_stmts(b)
                yield from self.numbers_stmts(s[3])

    def numbers_prog(self, P):
        for v in self.vars:
            yield from as_dual(P["s0"].get(v, 0))
        yield from self.numbers_stmts(P["init"])
        yield from self.numbers_cond(P["guard"])
        yield from self.numbers_stmts(P["body"])

    # ---- encoding ----
    def poly(self, p, D):
        return [
            {"c": enc_s(c, D), "e": [[self.idx[v], int(e)] for v, e in mono if int(e) != 0]}
            for c, mono in p
        ]

    def cond(self, c, D):
        t = c[0]
        if t in ("true", "false"):
            return {"t": t}
        if t == "atom":
            return {"t": "atom", "l": self.poly(c[1], D), "op": c[2], "r": self.poly(c[3], D)}
        if t in ("and", "or"):
            return {"t": t, "a": self.cond(c[1], D), "b": self.cond(c[2], D)}
        if t == "not":
            return {"t": "not", "a": self.cond(c[1], D)}
        raise ValueError(t)

    def dist(self, d, D):
        if d[0] == "bernoulli":
            return {"f": "bernoulli", "p": enc_s(d[1], D)}
        if d[0] == "categorical":
            return {"f": "categorical", "ps": [enc_s(p, D) for p in d[1]]}
        if d[0] == "duniform":
            return {"f": "duniform", "lo": int(d[1]), "hi": int(d[2])}
        if d[0] == "finite":
            return {"f": "finite", "xs": [{"x": enc_s(x, D), "p": enc_s(p, D)} for x, p in d[1]]}
        raise ValueError(d[0])

    def stmts(self, ss, D):
        out = []
        for s in ss:
            if s[0] == "assign":
                out.append({"t": "assign", "v": self.idx[s[1]],
                            "br": [{"p": enc_s(p, D), "e": self.poly(e, D)} for p, e in s[2]],
                            "c": self.cond(s[3], D), "d": self.idx[s[4]]})
            elif s[0] == "draw":
                out.append({"t": "draw", "v": self.idx[s[1]], "dist": self.dist(s[2], D),
                            "c": self.cond(s[3], D), "d": self.idx[s[4]]})
            elif s[0] == "simul":
                out.append({"t": "simul", "items": self.stmts(s[1], D)})
            elif s[0] == "func":
                tab = func_table(s[2], s[3])
                isvar = isinstance(s[3], str)
                out.append({"t": "func", "v": self.idx[s[1]], "arg": self.idx[s[3]] if isvar else 0,
                            "argc": enc_s(0 if isvar else s[3], D),
                            "tab": [{"x": enc_s(x, D), "y": enc_s(y, D)} for x, y in tab],
                            "miss": enc_s(Fraction(123456789), D),
                            "c": self.cond(s[4], D), "d": self.idx[s[5]]})
            elif s[0] == "if":
                out.append({"t": "if", "cs": [self.cond(c, D) for c in s[1]],
                            "bs": [self.stmts(b, D) for b in s[2]], "el": self.stmts(s[3], D)})
            else:
                raise ValueError(s[0])
        return out

    def prog(self, P, D):
        return {"s0": [enc_s(P["s0"].get(v, 0), D) for v in self.vars],
                "init": self.stmts(P["init"], D), "guard": self.cond(P["guard"], D),
                "body": self.stmts(P["body"], D)}


FUNC_DIGITS = 34
FUNC_ARGS = [Fraction(i, 2) for i in range(-8, 25)]


def func_value(fn, x):
    """rational approximation (FUNC_DIGITS significant digits) of Sin / Cos / Exp at the rational x"""
    import mpmath
    mpmath.mp.dps = FUNC_DIGITS + 12
    f = {"Sin": mpmath.sin, "Cos": mpmath.cos, "Exp": mpmath.exp}[fn]
    v = f(mpmath.mpf(x.numerator) / mpmath.mpf(x.denominator))
    return Fraction(mpmath.nstr(v, FUNC_DIGITS, strip_zeros=False))


def func_table(fn, arg):
    """(argument, value) pairs: all half-integers of a window for a variable argument, the constant itself otherwise"""
    args = FUNC_ARGS if isinstance(arg, str) else [Fraction(arg)]
    return [(x, func_value(fn, x)) for x in args]


def choose_D(numbers):
    l = 1
    for x in numbers:
        d = Fraction(x).denominator
        l = l * d // gcd(l, d)
    D = radical(l)
    if D == 1:
        D = 2
    if D >= BASE:
        raise NotDadic(f"denominator base {D} too large")
    return D


def frac_claim(x):
    """p/q with q > 0 as two integers"""
    x = Fraction(x)
    return {"p": enc_z(x.numerator), "q": enc_z(x.denominator)}
