"""spec -> code: programs enumerated by TLC from spec/ProgSpace.tla with their exact moment sequences."""
import json
import os
import shutil
import subprocess
import tempfile
from fractions import Fraction as F

from . import encode as E, gen, tlc

VARS = ["f", "x", "y"]
GOALS = ["x", "y", "f*x", "x**2", "f"]
D = 2


def _sc(s):
    return E.dec_r(s["a"], D)


def _poly(p):
    return [(_sc(t["c"]), tuple((VARS[v - 1], e) for v, e in t["e"])) for t in p]


def _cond(c):
    t = c["t"]
    if t in ("true", "false"):
        return (t,)
    if t == "atom":
        return ("atom", _poly(c["l"]), c["op"], _poly(c["r"]))
    if t in ("and", "or"):
        return (t, _cond(c["a"]), _cond(c["b"]))
    return ("not", _cond(c["a"]))


def _dist(d):
    if d["f"] == "bernoulli":
        return ("bernoulli", _sc(d["p"]))
    if d["f"] == "categorical":
        return ("categorical", [_sc(p) for p in d["ps"]])
    if d["f"] == "duniform":
        return ("duniform", d["lo"], d["hi"])
    raise ValueError(d["f"])


def _stmts(ss):
    out = []
    for s in ss:
        if s["t"] == "assign":
            out.append(("assign", VARS[s["v"] - 1], [(_sc(b["p"]), _poly(b["e"])) for b in s["br"]], _cond(s["c"]), VARS[s["d"] - 1]))
        elif s["t"] == "draw":
            out.append(("draw", VARS[s["v"] - 1], _dist(s["dist"]), _cond(s["c"]), VARS[s["d"] - 1]))
        elif s["t"] == "simul":
            out.append(("simul", _stmts(s["items"])))
        elif s["t"] == "if":
            out.append(("if", [_cond(c) for c in s["cs"]], [_stmts(b) for b in s["bs"]], _stmts(s["el"])))
    return out


def decode(prog):
    return {"vars": list(VARS), "s0": {}, "init": _stmts(prog["init"]), "guard": _cond(prog["guard"]), "body": _stmts(prog["body"])}


def enumerate_space(maxlen, steps):
    """every program of the space with the spec's moment sequences: list of (key, abstract program, {goal: [values]})"""
    work = tempfile.mkdtemp(prefix="verif-ps-")
    try:
        cfg = os.path.join(work, "ps.cfg")
        open(cfg, "w").write(f"CONSTANTS MaxLen = {maxlen}  Steps = {steps}\nSPECIFICATION Spec\nINVARIANT MassOK\nCONSTRAINT Emit\nCHECK_DEADLOCK FALSE\n")
        cmd = ["java", "-XX:+UseParallelGC", "-Xmx8g", "-Xss64m", "-cp", tlc.TLC_CP, "tlc2.TLC", "-workers", "1", "-metadir",
               os.path.join(work, "meta"), "-noGenerateSpecTE", "-config", cfg, os.path.join(tlc.SPEC_DIR, "ProgSpace.tla")]
        p = subprocess.run(cmd, cwd=tlc.SPEC_DIR, capture_output=True, text=True, timeout=3000)
        m = tlc._STATS_RE.search(p.stdout)
        if p.returncode != 0 or not m:
            raise tlc.TlcError(p.stdout[-2000:])
        out = []
        for line in p.stdout.splitlines():
            if line.startswith('"@@PROG '):
                d = json.loads(json.loads(line)[len("@@PROG "):])
                key = f"g{d['guard']}-" + "_".join(str(i) for i in d["body"])
                vals = {g: [E.dec_r(step[i], D) for step in d["vals"]] for i, g in enumerate(GOALS)}
                out.append((key, decode(d["prog"]), vals))
        return out, int(m.group(1)), int(m.group(2))
    finally:
        shutil.rmtree(work, ignore_errors=True)


def items(maxlen, steps, sample=None, rng=None):
    progs, states, distinct = enumerate_space(maxlen, steps)
    total = len(progs)
    if sample is not None and rng is not None and len(progs) > sample:
        rng.shuffle(progs)
        progs = progs[:sample]
    its = []
    for key, P, vals in progs:
        its.append({"id": "ps-" + key, "text": gen.render(P), "T": P, "params": [], "types": None, "points": [{}],
                    "goals": list(GOALS), "origin": "ProgSpace " + key, "spec_values": vals})
    return its, {"progspace_programs_enumerated": total, "progspace_states": distinct}
