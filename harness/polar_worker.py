"""Worker process: runs Polar (imported from $POLAR_REPO, default /repo) on jobs and reports observations.

Invoked as  /venv/bin/python -m harness.polar_worker   with a JSON list of jobs on stdin; prints one JSON
result per job (one per line, prefixed by '@@RESULT ').  Nothing here judges a result: it only observes
(parsed program, program after each pass, types, recurrences, closed forms evaluated at integer n).
"""
import json
import os
import signal
import sys
import traceback
from fractions import Fraction

REPO = os.environ.get("POLAR_REPO", "/repo")
sys.path.insert(0, REPO)
os.chdir(REPO)
os.environ.setdefault("POLAR_VERIF", "1")

import re
import sympy  # noqa: E402
import sympy.stats  # noqa: E402
import symengine  # noqa: E402


class Unsupported(Exception):
    """the observation cannot be expressed in the spec's language (not a verdict about Polar)"""


class JobTimeout(BaseException):
    pass


def _alarm(signum, frame):
    raise JobTimeout()


# ------------------------------------------------------------------------------------------------
# export of Polar programs to the abstract syntax of harness/encode.py (JSON friendly)

def frac_str(x):
    x = sympy.nsimplify(x) if not isinstance(x, (sympy.Rational, sympy.Integer)) else x
    if not x.is_Rational:
        raise Unsupported(f"non-rational constant {x}")
    return f"{int(x.p)}/{int(x.q)}"


class Exporter:
    allow_cont = False      # export Normal / Uniform / Laplace draws (the harness replaces them by moment-matched finite laws)

    def __init__(self, variables, point, dparam=None):
        """variables: iterable of names; point: dict symbol name -> Fraction string; dparam: name of the
        parameter w.r.t. which coefficients also carry their derivative (dual numbers)."""
        self.vars = sorted(str(v) for v in variables)
        self.varsyms = [sympy.Symbol(v) for v in self.vars]
        self.point = {sympy.Symbol(k): sympy.Rational(v) for k, v in point.items()}
        self.dparam = sympy.Symbol(dparam) if dparam else None

    def scalar(self, c):
        c = sympy.sympify(c)
        free = c.free_symbols - set(self.point)
        if free:
            raise Unsupported(f"symbols without a value: {sorted(map(str, free))}")
        a = c.xreplace(self.point)
        if self.dparam is None:
            return frac_str(a)
        b = sympy.diff(c, self.dparam).xreplace(self.point)
        return [frac_str(a), frac_str(b)]

    def poly(self, expr):
        e = sympy.sympify(expr)
        try:
            e = sympy.expand(e)
            if not self.varsyms:
                return [[self.scalar(e), []]] if e != 0 else []
            p = sympy.Poly(e, *self.varsyms)
        except sympy.PolynomialError as ex:
            raise Unsupported(f"not a polynomial: {expr}")
        terms = []
        for mono, coeff in p.terms():
            terms.append([self.scalar(coeff), [[v, int(k)] for v, k in zip(self.vars, mono) if k]])
        return terms

    def cond(self, c):
        name = type(c).__name__
        if name == "TrueCond":
            return ["true"]
        if name == "FalseCond":
            return ["false"]
        if name == "Atom":
            return ["atom", self.poly(c.poly1), str(c.cop), self.poly(c.poly2)]
        if name == "And":
            return ["and", self.cond(c.cond1), self.cond(c.cond2)]
        if name == "Or":
            return ["or", self.cond(c.cond1), self.cond(c.cond2)]
        if name == "Not":
            return ["not", self.cond(c.cond)]
        raise Unsupported(f"condition {name}")

    def dist(self, d):
        name = type(d).__name__
        if name == "Bernoulli":
            return ["bernoulli", self.scalar(d.p)]
        if name == "Categorical":
            return ["categorical", [self.scalar(p) for p in d.probabilities]]
        if name == "DiscreteUniform":
            return ["duniform", int(d.values[0]), int(d.values[-1])]
        if self.allow_cont and self.dparam is None:
            if name == "Normal":
                return ["normal", self.poly(d.mu), self.scalar(d.sigma2)]
            if name == "Uniform":
                return ["uniform", self.poly(d.a), self.poly(d.b)]
            if name == "Laplace":
                return ["laplace", self.poly(d.mu), self.scalar(d.b)]
        raise Unsupported(f"distribution {name}")

    def stmts(self, ss):
        out = []
        for s in ss:
            name = type(s).__name__
            if name == "PolyAssignment":
                out.append(["assign", str(s.variable),
                            [[self.scalar(p), self.poly(e)] for p, e in zip(s.probabilities, s.polynomials)],
                            self.cond(s.condition), str(s.default)])
            elif name == "DistAssignment":
                out.append(["draw", str(s.variable), self.dist(s.distribution),
                            self.cond(s.condition), str(s.default)])
            elif name == "FunctionalAssignment":
                arg = s.argument
                out.append(["func", str(s.variable), str(s.func),
                            str(arg) if arg.is_Symbol else frac_str(sympy.sympify(arg)),
                            self.cond(s.condition), str(s.default)])
            elif name == "IfStatem":
                out.append(["if", [self.cond(c) for c in s.conditions],
                            [self.stmts(b) for b in s.branches],
                            self.stmts(s.else_branch) if s.else_branch else []])
            else:
                raise Unsupported(f"statement {name}")
        return out

    def program(self, program):
        s0 = {}
        for v in self.vars:
            sym = v + "0"
            if sympy.Symbol(sym) in self.point:
                s0[v] = self.scalar(sympy.Symbol(sym))
        return {"vars": self.vars, "s0": s0, "init": self.stmts(program.initial),
                "guard": self.cond(program.loop_guard), "body": self.stmts(program.loop_body)}


def all_assign_vars(stmts, acc):
    for s in stmts:
        if type(s).__name__ == "IfStatem":
            for b in s.branches:
                all_assign_vars(b, acc)
            if s.else_branch:
                all_assign_vars(s.else_branch, acc)
        else:
            acc.add(str(s.variable))
            acc.add(str(s.default))
    return acc


def program_symbols(program):
    """(variables, parameter symbols) of a program in any stage"""
    variables = all_assign_vars(program.initial, set()) | all_assign_vars(program.loop_body, set())
    variables |= {str(v) for v in program.variables}
    free = set()

    def walk(stmts):
        for s in stmts:
            if type(s).__name__ == "IfStatem":
                for c in s.conditions:
                    free.update(str(x) for x in c.get_free_symbols())
                for b in s.branches:
                    walk(b)
                if s.else_branch:
                    walk(s.else_branch)
            else:
                free.update(str(x) for x in s.get_free_symbols())
    walk(program.initial)
    walk(program.loop_body)
    free.update(str(x) for x in program.loop_guard.get_free_symbols())
    return variables, free - variables


def probability_vectors(program):
    """every probability vector of the program: (list of expressions, must_sum_to_one)"""
    out = []

    def walk(stmts):
        for s_ in stmts:
            name = type(s_).__name__
            if name == "IfStatem":
                for b in s_.branches:
                    walk(b)
                if s_.else_branch:
                    walk(s_.else_branch)
            elif name == "PolyAssignment":
                out.append(([sympy.sympify(p) for p in s_.probabilities], True))
            elif name == "DistAssignment":
                d = s_.distribution
                if type(d).__name__ == "Categorical":
                    out.append(([sympy.sympify(p) for p in d.probabilities], True))
                elif type(d).__name__ == "Bernoulli":
                    out.append(([sympy.sympify(d.p), 1 - sympy.sympify(d.p)], True))
    walk(program.initial)
    walk(program.loop_body)
    return [c for c in out if any(e.free_symbols for e in c[0])]


def solve_vectors(point, constraints, free):
    """adjust one free symbol per vector so that the vector sums to 1 (when it is linear in that symbol)"""
    point = dict(point)
    for exprs, _ in constraints:
        total = sum(exprs)
        sub = {sympy.Symbol(k): sympy.Rational(v) for k, v in point.items()}
        val = total.xreplace(sub)
        if val.free_symbols:
            return None
        if val == 1:
            continue
        cands = [str(x) for x in total.free_symbols if str(x) in free]
        fixed = False
        for c in cands:
            sub2 = {k: v for k, v in sub.items() if str(k) != c}
            sol = sympy.solve(sympy.Eq(total.xreplace(sub2), 1), sympy.Symbol(c))
            if sol and sol[0].is_Rational:
                point[c] = f"{int(sol[0].p)}/{int(sol[0].q)}"
                fixed = True
                break
        if not fixed:
            return None
    return point


def vectors_valid(point, constraints):
    sub = {sympy.Symbol(k): sympy.Rational(v) for k, v in point.items()}
    for exprs, _ in constraints:
        vals = [e.xreplace(sub) for e in exprs]
        if any(v.free_symbols or v < 0 or v > 1 for v in vals) or sum(vals) != 1:
            return False
    return True


def initialised_vars(program):
    return all_assign_vars(program.initial, set())


# ------------------------------------------------------------------------------------------------

def apply_settings(st):
    import settings
    defaults = dict(transform_categoricals=False, cond2arithm=False, disable_type_inference=False,
                    type_fp_iterations=100, numeric_roots=False, numeric_croots=False, numeric_eps=1e-10,
                    trivial_guard=False, exact_func_moments=False)
    defaults.update(st or {})
    for k, v in defaults.items():
        setattr(settings, k, v)


def eval_closed_form(expr, point, n):
    """value of a closed form (sympy, possibly Piecewise in n) at integer n and parameter point"""
    from utils import eval_re
    sub = {sympy.Symbol(k): sympy.Rational(v) for k, v in point.items()}
    e = sympy.sympify(expr).xreplace(sub)
    try:
        v = eval_re(n, e)
    except Exception as ex:  # e.g. division by zero inside
        return {"undef": f"{type(ex).__name__}: {ex}"}
    return classify_value(v)


def classify_value(v):
    v = sympy.sympify(v)
    if v.has(sympy.nan, sympy.zoo, sympy.oo, -sympy.oo):
        return {"undef": str(v)}
    if v.free_symbols and all(re.fullmatch(r"_prob\d+", str(s)) for s in v.free_symbols):
        # probabilities of abstracted conditions (ConditionsNormalizer): the answer is parametric in constants that
        # Polar defines as P(condition) in [0, 1]; multilinear answers are enclosed by their values at the vertices
        out = {"absprob": sorted(str(s) for s in v.free_symbols), "expr": str(v)}
        try:
            syms = sorted(v.free_symbols, key=str)
            real = {s: sympy.Symbol("r" + str(s), real=True) for s in syms}
            w = sympy.expand(sympy.simplify(v.xreplace(real)))
            pol = sympy.Poly(w, *real.values())
            if all(d <= 1 for mon in pol.monoms() for d in mon) and len(syms) <= 6:
                import itertools
                vals = [sympy.nsimplify(w.xreplace(dict(zip(real.values(), bits)))) for bits in itertools.product((0, 1), repeat=len(syms))]
                if all(x.is_Rational for x in vals):
                    lo, hi = min(vals), max(vals)
                    out.update(lo=f"{int(lo.p)}/{int(lo.q)}", hi=f"{int(hi.p)}/{int(hi.q)}")
            terms = [(sympy.nsimplify(c), mon) for mon, c in pol.terms()]
            if all(c.is_Rational for c, _ in terms):
                out["terms"] = [[f"{int(c.p)}/{int(c.q)}", [int(e) for e in mon]] for c, mon in terms]
        except Exception:
            pass
        return out
    if v.free_symbols:
        return {"free": sorted(str(s) for s in v.free_symbols), "expr": str(v)}
    if v.is_Rational:
        return {"q": f"{int(v.p)}/{int(v.q)}"}
    if v.is_Float:
        return {"float": str(v)}
    # algebraic expression that should collapse
    for f in (sympy.expand, sympy.radsimp, sympy.simplify, sympy.nsimplify):
        try:
            w = f(v)
        except Exception:
            continue
        if w.is_Rational:
            return {"q": f"{int(w.p)}/{int(w.q)}"}
    try:
        num = sympy.N(v, 60)
        re_, im_ = num.as_real_imag()
        return {"approx": str(re_), "im": str(im_), "expr": str(v)[:200]}
    except Exception as ex:
        return {"undef": f"cannot evaluate: {ex}"}


class Namespace:
    def __init__(self, **kw):
        self.__dict__.update(kw)


def features(program):
    """structural facts about a program object (observation only; spec/Pipeline.tla states what each pass must
    establish and keep): G non-trivial loop guard, I if-statements, M a variable assigned more than once in the loop
    body, R an atom that is not `variable cop number', N an atom that is not `variable == number' (negations of such atoms are normal),
    C an assignment with a condition, P a Normal/Uniform/Laplace/Exponential draw whose parameters mention variables"""
    from program.ifstatem import IfStatem
    from program.condition import TrueCond, Atom, And, Or, Not
    from program.assignment import DistAssignment
    from program.distribution import Normal, Uniform, Laplace, Exponential
    f = set()
    conds, assigns = [], []

    def walk(stmts, top_body):
        for st in stmts:
            if isinstance(st, IfStatem):
                f.add("I")
                conds.extend(st.conditions)
                for b in st.branches:
                    walk(b, top_body)
                if st.else_branch:
                    walk(st.else_branch, top_body)
            else:
                assigns.append((st, top_body))
                conds.append(st.condition)
    walk(program.initial, False)
    walk(program.loop_body, True)
    if not isinstance(program.loop_guard, TrueCond):
        f.add("G")
    conds.append(program.loop_guard)
    count = {}
    for a, in_body in assigns:
        if in_body:
            count[str(a.variable)] = count.get(str(a.variable), 0) + 1
        if not isinstance(a.condition, TrueCond):
            f.add("C")
        if isinstance(a, DistAssignment) and isinstance(a.distribution, (Normal, Uniform, Laplace, Exponential)):
            if any(str(x) in {str(v) for v in program.variables} for x in a.distribution.get_free_symbols()):
                f.add("P")
    if any(c > 1 for c in count.values()):
        f.add("M")

    def atoms(c):
        if isinstance(c, Atom):
            yield c
        elif isinstance(c, (And, Or)):
            yield from atoms(c.cond1)
            yield from atoms(c.cond2)
        elif isinstance(c, Not):
            yield from atoms(c.cond)
    for c in conds:
        for a in atoms(c):
            l, r = sympy.sympify(str(a.poly1)), sympy.sympify(str(a.poly2))
            if l.is_number and r.is_number:
                continue
            if not (l.is_Symbol and r.is_number):
                f.add("R")
                f.add("N")
            elif a.cop != "==":
                f.add("N")
    return sorted(f)


def install_pass_recorder(snapshots, exporter_factory):
    """wrap execute of every Transformer subclass so that the program after each pass is exported"""
    from program.transformer.transformer import Transformer
    depth = {"d": 0}
    seen = []

    def subclasses(c):
        for s in c.__subclasses__():
            yield s
            yield from subclasses(s)

    originals = []
    for cls in set(subclasses(Transformer)):
        if "execute" not in cls.__dict__:
            continue
        orig = cls.__dict__["execute"]
        originals.append((cls, orig))

        def wrapped(self, program, _orig=orig):
            _name = type(self).__name__
            depth["d"] += 1
            try:
                res = _orig(self, program)
            finally:
                depth["d"] -= 1
            if depth["d"] == 0:
                try:
                    snapshots.append({"pass": _name, "progs": exporter_factory(res)})
                except Unsupported as ex:
                    snapshots.append({"pass": _name, "unsupported": str(ex)})
                try:
                    snapshots[-1]["feat"] = features(res)
                except Exception as ex:
                    snapshots[-1]["feat_error"] = f"{type(ex).__name__}: {ex}"
            return res
        cls.execute = wrapped

    def restore():
        for cls, orig in originals:
            cls.execute = orig
    return restore


def job_analyze(job):
    from inputparser import Parser
    from program import normalize_program
    from recurrences import RecBuilder
    from recurrences.solver import RecurrenceSolver
    from cli.common import get_moment, get_moment_given_termination
    from utils import raw_moments_to_cumulants, raw_moments_to_centrals

    res = {"id": job["id"], "kind": "analyze"}
    apply_settings(job.get("settings"))
    import cli.common as _cc
    if job.get("force_cyclic"):
        _cc.RecurrenceSolver = lambda recs, *a, **k: RecurrenceSolver(recs, *a, force_cyclic_solver=True, **k)
    else:
        _cc.RecurrenceSolver = RecurrenceSolver
    want = set(job.get("want", ["parsed", "moments"]))
    points = job.get("points") or [{}]
    N = job.get("N", 6)
    res["points_used"] = []
    dparam = job.get("dparam")

    # ---- parse
    try:
        program = Parser().parse_string(job["text"])
    except Exception as ex:
        res.update(stage="parse", exc=type(ex).__name__, msg=str(ex)[:300])
        return res
    variables, params = program_symbols(program)
    res["variables"] = sorted(variables)
    res["original_variables"] = sorted(str(v) for v in program.original_variables)
    res["params"] = sorted(params)
    res["initialised"] = sorted(initialised_vars(program))
    res["is_probabilistic"] = bool(program.is_probabilistic)
    # parameter points: every symbol (parameters and the initial values v0 of variables the program does
    # not initialise) needs a value; missing ones get small distinct fractions
    symbols = sorted(params) + sorted(v + "0" for v in variables - initialised_vars(program))
    if isinstance(points, str):
        k = int(points.split(":")[1]) if ":" in points else 2
        points = [{} for _ in range(k if symbols else 1)]
    full = []
    constraints = probability_vectors(program)
    for i, pt in enumerate(points):
        pt = dict(pt)
        missing = [sname for sname in symbols if sname not in pt]
        cand = None
        for attempt in range(60):
            trial = dict(pt)
            for j, sname in enumerate(missing):
                trial[sname] = f"1/{2 + (i + j + attempt * (j + 1)) % 5}"
            trial = solve_vectors(trial, constraints, set(missing))
            if trial is not None and vectors_valid(trial, constraints):
                cand = trial
                break
        if cand is None:
            cand = dict(pt)
            for j, sname in enumerate(missing):
                cand[sname] = f"1/{2 + (i + j) % 3}"
            res.setdefault("point_notes", []).append("no parameter point found that makes all probability vectors valid")
        full.append(cand)
    points = full
    res["points_used"] = points
    if job.get("goals") == "auto":
        ov = sorted(str(v) for v in program.original_variables)
        auto = ov[:6] + [f"{v}**2" for v in ov[:4]]
        if len(ov) >= 2:
            auto.append(f"{ov[0]}*{ov[1]}")
        job = dict(job, goals=auto)
    res["goals_used"] = job.get("goals", [])

    def exporter_factory(prog):
        vs, _ = program_symbols(prog)
        out = []
        for pt in points:
            out.append(Exporter(vs, pt, dparam).program(prog))
        return out

    if "parsed" in want:
        try:
            res["parsed"] = exporter_factory(program)
        except Unsupported as ex:
            res["parsed_unsupported"] = str(ex)
            if "cont" in want:
                Exporter.allow_cont = True
                try:
                    res["parsed_cont"] = exporter_factory(program)
                except Unsupported as ex2:
                    res["parsed_cont_unsupported"] = str(ex2)
                finally:
                    Exporter.allow_cont = False

    # ---- normalize (recording every pass)
    if "passes" in want:
        try:
            res["feat0"] = features(program)
        except Exception as ex:
            res["feat0_error"] = f"{type(ex).__name__}: {ex}"
    snapshots = []
    restore = install_pass_recorder(snapshots, exporter_factory) if "passes" in want else (lambda: None)
    try:
        program = normalize_program(program)
    except Exception as ex:
        res.update(stage="normalize", exc=type(ex).__name__, msg=str(ex)[:300],
                   where=traceback.extract_tb(ex.__traceback__)[-1].name)
        res["passes"] = snapshots
        return res
    finally:
        restore()
    if "passes" in want:
        res["passes"] = snapshots
    if "normalized" in want or "types" in want or "recs" in want:
        try:
            res["normalized"] = exporter_factory(program)
        except Unsupported as ex:
            res["normalized_unsupported"] = str(ex)
    res["typedefs"] = {str(v): sorted(frac_or_str(x) for x in t.values)
                       for v, t in program.typedefs.items() if hasattr(t, "values")}
    res["user_typed"] = job.get("user_typed", [])
    res["norm_variables"] = sorted(str(v) for v in program.variables)
    res["norm_symbols"] = sorted(str(v) for v in program.symbols)
    res["effective"] = sorted(str(v) for v in program.effective_variables)
    res["defective"] = sorted(str(v) for v in program.defective_variables)
    res["abstracted"] = {str(k): str(v) for k, v in program.abstracted_const_store.items()}
    res["original_loop_guard"] = str(program.original_loop_guard)
    if "abstractions" in want and program.abstracted_const_store:
        # normalized program in which every abstraction draw  _aK = Bernoulli(_probK)  is replaced by the indicator
        # of the condition that _probK stands for (observation: where the draw sits and what it abstracts)
        try:
            vs, _ = program_symbols(program)
            outs = []
            for pt in points:
                ex = Exporter(vs, pt, dparam)
                sites = []

                def block(stmts, where):
                    out = []
                    for st in stmts:
                        d = getattr(st, "distribution", None)
                        prob = getattr(d, "p", None) if type(d).__name__ == "Bernoulli" else None
                        if prob is not None and prob in program.abstracted_const_store and type(st.condition).__name__ == "TrueCond":
                            a = str(st.variable)
                            c = ex.cond(program.abstracted_const_store[prob])
                            sites.append({"where": where, "index": len(out), "var": a, "prob": str(prob)})
                            out.append(["if", [c], [[["assign", a, [["1", [["1", []]]]], ["true"], a]]],
                                        [["assign", a, [["1", []]], ["true"], a]]])
                        else:
                            out += ex.stmts([st])
                    return out
                P = {"vars": ex.vars, "s0": {v: ex.scalar(sympy.Symbol(v + "0")) for v in ex.vars if sympy.Symbol(v + "0") in ex.point},
                     "init": block(program.initial, "init"), "guard": ex.cond(program.loop_guard), "body": block(program.loop_body, "body")}
                outs.append({"prog": P, "sites": sites})
            res["abstractions"] = outs
        except Unsupported as ex_:
            res["abstractions_unsupported"] = str(ex_)

    # ---- goals
    cli_args = Namespace(solvability_check=bool(job.get("solvability_check")), at_n=-1, after_loop=False)
    rec_builder = RecBuilder(program)
    solvers = {}
    goals_out = {}
    for g in job.get("goals", []):
        go = {}
        goals_out[g] = go
        try:
            monom = symengine.sympify(g)
            if "recs" in want:
                recs = rec_builder.get_recurrences(monom)
                go["recs"] = export_recs(recs, program, points, dparam)
            moment, is_exact = get_moment(monom, solvers, rec_builder, cli_args, program)
            go["closed_form"] = str(moment)[:2000]
            go["is_exact"] = bool(is_exact)
            go["values"] = [[eval_closed_form(moment, pt, n) for n in range(N + 1)] for pt in points]
            if dparam:
                d = sympy.diff(moment, sympy.Symbol(dparam))
                go["dvalues"] = [[eval_closed_form(d, pt, n) for n in range(N + 1)] for pt in points]
        except JobTimeout:
            raise
        except Exception as ex:
            go.update(exc=type(ex).__name__, msg=str(ex)[:300],
                      where=traceback.extract_tb(ex.__traceback__)[-1].name,
                      where_polar=next((fr.name for fr in reversed(traceback.extract_tb(ex.__traceback__))
                                        if fr.filename.startswith(REPO) and "/site-packages/" not in fr.filename), None))
    res["goals"] = goals_out

    # ---- sensitivities (both methods)
    if "sens" in want and dparam:
        from recurrences import DiffRecBuilder
        sout = {}
        param = symengine.Symbol(dparam)
        try:
            drb = DiffRecBuilder(program, param)
        except Exception as ex:
            drb = None
            res["sens_builder_exc"] = f"{type(ex).__name__}: {str(ex)[:200]}"
        dsolvers = {}
        for g in job.get("goals", []):
            so = {}
            sout[g] = so
            monom = symengine.sympify(g)
            try:
                moment, is_exact = get_moment(monom, solvers, rec_builder, cli_args, program)
                d = sympy.sympify(moment).diff(sympy.Symbol(dparam)).simplify()
                so["diff_closed_form"] = [[eval_closed_form(d, pt, n) for n in range(N + 1)] for pt in points]
            except JobTimeout:
                raise
            except Exception as ex:
                so["diff_closed_form_exc"] = f"{type(ex).__name__}: {str(ex)[:200]}"
            if drb is not None:
                try:
                    dm, is_exact = get_moment(monom, dsolvers, drb, cli_args, program)
                    so["diff_recurrences"] = [[eval_closed_form(dm, pt, n) for n in range(N + 1)] for pt in points]
                except JobTimeout:
                    raise
                except Exception as ex:
                    so["diff_recurrences_exc"] = f"{type(ex).__name__}: {str(ex)[:200]}"
        res["sens"] = sout

    if "sens_cli" in want and dparam:
        # what a user sees: the sensitivity action itself, driven through the argument parser with --at_n n, its
        # printed lines  dE(g | n=k) = value  read back (both methods)
        import contextlib
        import io
        import tempfile as _tf
        from cli import ArgumentParser
        from cli.actions import ActionFactory
        cout_ = {}
        tf = _tf.NamedTemporaryFile("w", suffix=".prob", delete=False)
        tf.write(job["text"])
        tf.close()
        old_argv = sys.argv
        try:
            for method, flag in (("recurrences", "-sens"), ("closed_form", "-sens_diff")):
                per_goal = {g: [] for g in job.get("goals", [])}
                for n in range(N + 1):
                    sys.argv = ["polar.py", tf.name, "--goals"] + [f"E({g})" for g in job.get("goals", [])] + ["--at_n", str(n), flag, dparam]
                    buf = io.StringIO()
                    err = None
                    try:
                        with contextlib.redirect_stdout(buf):
                            a_ = ArgumentParser().parse_args()
                            ActionFactory.create_action(a_)(tf.name)
                    except JobTimeout:
                        raise
                    except (Exception, SystemExit) as ex:
                        err = f"{type(ex).__name__}: {str(ex)[:150]}"
                    lines = {}
                    for ln in buf.getvalue().splitlines():
                        m_ = re.match(r"^\u2202E\((.*) \| n=(\d+)\) = (.*) \u2245", ln)
                        if m_:
                            lines[m_.group(1).replace(" ", "")] = m_.group(3)
                    for g in per_goal:
                        key = str(symengine.sympify(g)).replace(" ", "")
                        if key in lines:
                            try:
                                ex_ = sympy.sympify(lines[key])
                                per_goal[g].append([eval_closed_form(ex_, pt, n) for pt in points])
                            except Exception as ex:
                                per_goal[g].append([{"undef": f"unparsable: {lines[key][:80]}"} for pt in points])
                        else:
                            per_goal[g].append([{"undef": err or "no line printed"} for pt in points])
                cout_[method] = {g: [[vals[n][pi] for n in range(N + 1)] for pi in range(len(points))] for g, vals in per_goal.items()}
        finally:
            sys.argv = old_argv
            os.unlink(tf.name)
            apply_settings(job.get("settings"))
        res["sens_cli"] = cout_

    # ---- tail bounds, read off the action's printed output at every n (what a user sees)
    if "tail" in want:
        import contextlib
        import io
        from cli.actions.goals_action import GoalsAction
        tout = []
        for tg in job.get("tail_goals", []):
            rec = {"monom": tg["monom"], "a": tg["a"], "upper": [], "lower": []}
            for n in range(N + 1):
                for kind in ("upper", "lower"):
                    try:
                        ga = GoalsAction(Namespace(solvability_check=False, at_n=n, after_loop=False, invariants=False,
                                                   goals=[], tail_bound_moments=tg.get("moments", 2)))
                        ga.initialize_program(program, rec_builder)
                        ga.solvers = solvers
                        buf = io.StringIO()
                        with contextlib.redirect_stdout(buf):
                            data = [symengine.sympify(tg["monom"]), symengine.sympify(tg["a"])]
                            if kind == "upper":
                                ga.handle_tail_bound_upper_goal(data)
                            else:
                                ga.handle_tail_bound_lower_goal(data)
                        text = buf.getvalue()
                        line = [l for l in text.splitlines() if f"| n={n})" in l]
                        if line and "≅" in line[-1]:
                            head = line[-1].split(" ≅")[0]
                            val = head.rsplit("<= " if kind == "upper" else ">= ", 1)[1]
                            rec[kind].append(classify_value(sympy.sympify(val)))
                        else:
                            rec[kind].append({"undef": "no numeric line: " + text[-120:]})
                    except JobTimeout:
                        raise
                    except Exception as ex:
                        rec[kind].append({"undef": f"{type(ex).__name__}: {str(ex)[:100]}"})
            tout.append(rec)
        res["tail"] = tout

    # ---- moments given termination / central / cumulants
    if "term" in want:
        tout = {}
        for g in job.get("term_goals", job.get("goals", [])):
            to = {}
            tout[g] = to
            try:
                monom = symengine.sympify(g)
                cm, is_exact = get_moment_given_termination(monom, solvers, rec_builder, cli_args, program)
                to["closed_form"] = str(cm)[:2000]
                to["values"] = [[eval_closed_form(cm, pt, n) for n in range(N + 1)] for pt in points]
                if "after" in want:
                    from cli.common import transform_to_after_loop
                    lim = []
                    far = []
                    for pt in points:
                        sub = {sympy.Symbol(k): sympy.Rational(v) for k, v in pt.items()}
                        try:
                            L = transform_to_after_loop(sympy.sympify(cm).xreplace(sub))
                            lim.append({"inf": True, "text": str(L)} if L in (sympy.oo, -sympy.oo, sympy.zoo) else classify_value(L))
                        except JobTimeout:
                            raise
                        except Exception as ex:
                            lim.append({"undef": f"{type(ex).__name__}: {str(ex)[:100]}"})
                        ff = []
                        for nn in (150, 300):
                            v = eval_closed_form(cm, pt, nn)
                            try:
                                ff.append(float(sympy.N(sympy.Rational(v["q"]), 30)) if "q" in v else float(v.get("approx", "nan")))
                            except Exception:
                                ff.append(None)
                        far.append(ff)
                    to["limit"] = lim
                    to["far"] = far
            except JobTimeout:
                raise
            except Exception as ex:
                to.update(exc=type(ex).__name__, msg=str(ex)[:300])
        res["term"] = tout
        if "after_stats" in want:
            # central moments and cumulants after the loop, as the goal handlers report them (after_loop = True), next to
            # far terms of the conditional raw-moment sequences E[g^j | stopped] they must be the limits of
            from cli.actions.goals_action import GoalsAction
            aout = {}
            singles = [g for g in job.get("term_goals", job.get("goals", [])) if g.isidentifier()][:1]
            for g in singles:
                ao = {"central": {}, "cumulant": {}, "far_raw": []}
                aout[g] = ao
                try:
                    monom = symengine.sympify(g)
                    ga = GoalsAction(Namespace(solvability_check=False, at_n=-1, after_loop=True, invariants=False, goals=[],
                                               tail_bound_moments=2))
                    ga.initialize_program(program, rec_builder)
                    for k in (2, 3, 4):
                        for kind, fn in (("central", ga.handle_central_moment_goal), ("cumulant", ga.handle_cumulant_goal)):
                            try:
                                v, _ex = fn([k, monom])
                                ao[kind][str(k)] = [({"inf": True} if sympy.sympify(v).xreplace({sympy.Symbol(a): sympy.Rational(b) for a, b in pt.items()}) in (sympy.oo, -sympy.oo, sympy.zoo)
                                                     else eval_closed_form(v, pt, 0)) for pt in points]
                            except JobTimeout:
                                raise
                            except Exception as ex:
                                ao[kind][str(k)] = [{"undef": f"{type(ex).__name__}: {str(ex)[:100]}"} for pt in points]
                    cms = [get_moment_given_termination(monom ** j, solvers, rec_builder, cli_args, program)[0] for j in (1, 2, 3, 4)]
                    for pt in points:
                        rows = []
                        for nn in (150, 300):
                            row = []
                            for cmj in cms:
                                v = eval_closed_form(cmj, pt, nn)
                                row.append(v.get("q") or v.get("approx"))
                            rows.append(row)
                        ao["far_raw"].append(rows)
                except JobTimeout:
                    raise
                except Exception as ex:
                    ao["exc"] = f"{type(ex).__name__}: {str(ex)[:200]}"
            res["after_stats"] = aout
    if "central" in want or "cumulant" in want:
        from cli.common import get_all_moments
        cout = {}
        K = job.get("K", 4)
        for g in job.get("stat_goals", job.get("goals", [])):
            co = {}
            cout[g] = co
            try:
                monom = symengine.sympify(g)
                moments, is_exact = get_all_moments(monom, K, solvers, rec_builder, cli_args, program)
                cum = raw_moments_to_cumulants(dict(moments))
                cen = raw_moments_to_centrals(dict(moments))
                co["cumulants"] = {str(k): [[eval_closed_form(c, pt, n) for n in range(N + 1)] for pt in points]
                                   for k, c in cum.items()}
                co["centrals"] = {str(k): [[eval_closed_form(c, pt, n) for n in range(N + 1)] for pt in points]
                                  for k, c in cen.items()}
            except JobTimeout:
                raise
            except Exception as ex:
                co.update(exc=type(ex).__name__, msg=str(ex)[:300])
        if "allcum" in want:
            # the path of the expansion actions: cli.common.get_all_cumulants with --at_n (one call per n)
            from cli.common import get_all_cumulants
            for g in list(job.get("stat_goals", job.get("goals", [])))[:1]:
                co = cout.setdefault(g, {})
                try:
                    monom = symengine.sympify(g)
                    per_k = {}
                    for n in range(N + 1):
                        a2 = Namespace(**dict(vars(cli_args), at_n=n))
                        cums = get_all_cumulants(program, monom, K, a2)
                        for k, c in cums.items():
                            per_k.setdefault(str(k), {})[n] = c
                    co["cumulants_at_n"] = {k: [[eval_closed_form(byn[n], pt, n) for n in range(N + 1)] for pt in points]
                                            for k, byn in per_k.items()}
                except JobTimeout:
                    raise
                except Exception as ex:
                    co["cumulants_at_n_exc"] = f"{type(ex).__name__}: {str(ex)[:200]}"
        res["stats"] = cout
    return res


def frac_or_str(x):
    try:
        return frac_str(sympy.sympify(x))
    except Exception:
        return "sym:" + str(x)


def export_recs(recs, program, points, dparam):
    """recurrence system as abstract data, instantiated at every point"""
    variables = sorted(str(v) for v in program.variables)
    out = []
    for pt in points:
        ex = Exporter(variables, pt, dparam)
        eqs = []
        for m, rhs in recs.recurrence_dict.items():
            eqs.append({"lhs": ex.poly(m), "rhsp": ex.poly(rhs),
                        "init": ex.scalar(recs.init_values_dict[m])})
        out.append({"vars": variables, "eqs": eqs})
    # structural facts (closedness, constant coefficients), independent of the point
    keys = {sympy.sympify(k) for k in recs.recurrence_dict}
    const_syms = {sympy.Symbol(str(s)) for s in program.symbols}
    var_syms = {sympy.Symbol(v) for v in variables}
    closed = True
    coeff_has_var = False
    for m, rhs in recs.recurrence_dict.items():
        p = sympy.Poly(sympy.expand(sympy.sympify(rhs)), *sorted(var_syms, key=str)) if var_syms else None
        if p is None:
            continue
        for mono, coeff in p.terms():
            mon = sympy.Mul(*[v ** k for v, k in zip(sorted(var_syms, key=str), mono)])
            if mon != 1 and mon not in keys:
                closed = False
            if coeff.free_symbols & var_syms:
                coeff_has_var = True
    return {"points": out, "closed": closed, "coeff_has_var": coeff_has_var,
            "monomials": [str(k) for k in recs.recurrence_dict], "is_acyclic": bool(recs.is_acyclic)}


def job_linrec(job):
    """solve x' = A x + b, x(0) = v with Polar's solvers; several systems and solver modes per job"""
    from recurrences import Recurrences
    from recurrences.solver import RecurrenceSolver

    class Stub:
        symbols = set()

    out = []
    N = job["N"]
    for sysd in job["systems"]:
        k = len(sysd["v"])
        xs = sympy.symbols(f"x1:{k + 1}")
        point = sysd.get("point", {})
        A = [[sympy.sympify(a) for a in row] for row in sysd["A"]]
        b = [sympy.sympify(c) for c in sysd["b"]]
        v = [sympy.sympify(c) for c in sysd["v"]]
        rd = {xs[i]: sum(A[i][j] * xs[j] for j in range(k)) + b[i] for i in range(k)}
        iv = {xs[i]: v[i] for i in range(k)}
        stub = Stub()
        stub.symbols = set().union(*[e.free_symbols for row in A for e in row], *[e.free_symbols for e in b + v]) if k else set()
        so = {"sid": sysd["sid"], "modes": []}
        for mode in job["modes"]:
            mo = {"mode": mode}
            signal.alarm(int(job.get("per_system_timeout", 60)))
            try:
                recs = Recurrences(rd, iv, stub)
                solver = RecurrenceSolver(recs, mode.get("numeric_roots", False), mode.get("numeric_croots", False),
                                          mode.get("numeric_eps", 1e-10), force_cyclic_solver=mode.get("force_cyclic", False))
                mo["solver"] = type(solver.solver).__name__
                mo["is_acyclic"] = bool(recs.is_acyclic)
                comps = []
                for i in range(k):
                    sol = solver.get(xs[i])
                    comps.append({"closed_form": str(sol)[:600],
                                  "values": [eval_closed_form(sol, point, n) for n in range(N + 1)]})
                mo["is_exact"] = bool(solver.is_exact)
                mo["comps"] = comps
            except JobTimeout:
                mo.update(exc="timeout")
            except Exception as ex:
                mo.update(exc=type(ex).__name__, msg=str(ex)[:200])
            finally:
                signal.alarm(int(job.get("timeout", 900)))
            so["modes"].append(mo)
        out.append(so)
    return {"id": job["id"], "systems": out}


def job_explattice(job):
    from invariants.exponent_lattice import ExponentLattice
    out = []
    for item in job["lists"]:
        o = {"lid": item["lid"]}
        try:
            bases = [sympy.sympify(b) for b in item["bases"]]
            signal.alarm(int(item.get("timeout", 60)))
            basis = ExponentLattice(bases).compute_basis()
            o["basis"] = [[int(x) for x in row] for row in basis]
        except JobTimeout:
            o["exc"] = "timeout"
        except Exception as ex:
            o.update(exc=type(ex).__name__, msg=str(ex)[:200])
        finally:
            signal.alarm(int(job.get("timeout", 600)))
        out.append(o)
    return {"id": job["id"], "lists": out}


class Scripted:
    """scripted random source: follows a prefix of option indices, then always takes the first option
    with positive weight; logs every call"""

    def __init__(self, prefix, sparse=False):
        self.prefix = list(prefix)
        self.pos = 0
        self.log = []
        self.sparse = sparse

    def pick(self, kind, weights):
        options = [i for i, w in enumerate(weights) if w > 0]
        if self.sparse and kind == "choices" and len(weights) == 1:
            self.log.append({"kind": kind, "weights": [float(w) for w in weights], "idx": 0, "options": options})
            return 0
        if self.pos < len(self.prefix):
            idx = self.prefix[self.pos]
        else:
            idx = options[0]
        self.pos += 1
        self.log.append({"kind": kind, "weights": [float(w) for w in weights], "idx": idx, "options": options})
        return idx


def float_frac(x):
    a, b = float(x).as_integer_ratio()
    return f"{a}/{b}"


def job_simulate(job):
    """run the simulator over scripted resolutions of all its random calls (depth-first enumeration)"""
    import random as pyrandom
    from inputparser import Parser
    from simulation import Simulator
    import program.distribution.bernoulli as bern_mod

    apply_settings(job.get("settings"))
    res = {"id": job["id"], "kind": "simulate"}
    N = job["N"]
    max_runs = job.get("max_runs", 3000)
    cur = {"s": None}

    def choices(population, weights=None, k=1, **kw):
        population = list(population)
        if weights is None:
            weights = [1.0] * len(population)
        return [population[cur["s"].pick("choices", list(weights))]]

    def choice(seq):
        seq = list(seq)
        return seq[cur["s"].pick("choice", [1.0] * len(seq))]

    class BernStub:
        @staticmethod
        def rvs(p, *a, **kw):
            idx = cur["s"].pick("bernoulli", [float(p), 1.0 - float(p)])
            return 1 if idx == 0 else 0

    class GuardProxy:
        def __init__(self, inner):
            self.inner = inner

        def evaluate(self, state):
            r = self.inner.evaluate(state)
            cur["s"].log.append({"kind": "guard", "value": bool(r)})
            return r

        def __getattr__(self, name):
            return getattr(self.inner, name)

    try:
        program = Parser().parse_string(job["text"])
    except Exception as ex:
        res.update(stage="parse", exc=type(ex).__name__, msg=str(ex)[:300])
        return res
    res["variables"] = sorted(str(v) for v in program.variables)
    if "parsed" in job.get("want", []):
        try:
            vs, _ = program_symbols(program)
            res["parsed"] = [Exporter(vs, {}).program(program)]
        except Unsupported as ex:
            res["parsed_unsupported"] = str(ex)
    program.loop_guard = GuardProxy(program.loop_guard)
    saved = (pyrandom.choices, pyrandom.choice, bern_mod.bernoulli)
    pyrandom.choices, pyrandom.choice, bern_mod.bernoulli = choices, choice, BernStub
    if job.get("fake_z") is not None:
        # continuous samplers: numpy's primitive generators return the constant z, so that every scipy draw
        # loc + scale * primitive reveals the location and scale the sampler was really called with
        import numpy as np
        import numpy.random.mtrand as mt
        import scipy.stats as st
        zval = float(sympy.Rational(job["fake_z"]))

        class FakeRS(np.random.RandomState):
            def _c(self, v, size):
                return np.full(size, v) if size is not None else v

            def standard_normal(self, size=None):
                return self._c(zval, size)

            def uniform(self, low=0.0, high=1.0, size=None):
                return self._c(low + (high - low) * zval, size)

            def standard_exponential(self, size=None):
                return self._c(zval, size)

            def laplace(self, loc=0.0, scale=1.0, size=None):
                return self._c(loc + scale * zval, size)

            def standard_gamma(self, shape, size=None):
                return self._c(zval, size)
        fake = FakeRS(0)
        mt._rand = fake
        for dname in ("norm", "uniform", "expon", "laplace", "gamma"):
            getattr(st, dname).random_state = fake
    runs = []
    complete = True
    if job.get("one_call"):
        # spec -> code replay of several behaviours in ONE call of simulate (samples = number of behaviours): the
        # scripted source is fed the concatenation of all behaviours' choices
        try:
            allscripts = job["scripts_sparse"]
            flat = [c for sc in allscripts for c in sc]
            cur["s"] = Scripted(flat, True)
            result = Simulator(N).simulate(program, [g for _n, g in job.get("sim_goals", [])], len(allscripts))
            gname1 = {str(symengine.sympify(g)): n_ for n_, g in job.get("sim_goals", [])}
            for states in result.samples:
                sts = []
                for st in states:
                    o_ = {}
                    for k, v in st.items():
                        ks = str(k)
                        if v != v:
                            continue
                        if ks in gname1 and not ks.isidentifier():
                            o_[gname1[ks]] = float_frac(v)
                        else:
                            o_[ks] = float_frac(v)
                            if ks in gname1:
                                o_[gname1[ks]] = float_frac(v)
                    sts.append(o_)
                runs.append({"states": sts})
        except Exception as ex:
            runs.append({"exc": type(ex).__name__, "msg": str(ex)[:200]})
        finally:
            pyrandom.choices, pyrandom.choice, bern_mod.bernoulli = saved
        res["runs"] = runs
        res["complete"] = False
        return res
    try:
        sparse = "scripts_sparse" in job
        script = forced = job.get("scripts", job.get("scripts_sparse"))   # spec -> code replay: explicit scripts
        prefix = []
        si = 0
        while True:
            if forced is not None:
                if si >= len(forced):
                    break
                prefix = forced[si]
                si += 1
            cur["s"] = Scripted(prefix, sparse)
            try:
                result = Simulator(N).simulate(program, [g for _n, g in job.get("sim_goals", [])], 1)
            except Exception as ex:
                runs.append({"exc": type(ex).__name__, "msg": str(ex)[:200], "prefix": list(prefix)})
                log = cur["s"].log
            else:
                states = result.samples[0]
                log = cur["s"].log
                # split the events: everything before the first guard evaluation belongs to the initial block
                groups, curg, guards = [], [], []
                for ev in log:
                    if ev["kind"] == "guard":
                        groups.append(curg)
                        curg = []
                        guards.append(ev["value"])
                    else:
                        curg.append(ev)
                groups.append(curg)

                gname = {str(symengine.sympify(g)): n_ for n_, g in job.get("sim_goals", [])}

                def st(d):
                    # goal values that the result object adds to every state are reported under their auxiliary names
                    out_ = {}
                    for k, v in d.items():
                        ks = str(k)
                        if v != v:
                            continue          # a goal over variables that are not assigned yet is reported as nan: left out
                        if ks in gname and not ks.isidentifier():
                            out_[gname[ks]] = float_frac(v)
                        else:
                            out_[ks] = float_frac(v)
                            if ks in gname:
                                out_[gname[ks]] = float_frac(v)
                    return out_

                def evs(g):
                    return [{"kind": e["kind"], "idx": e["idx"], "weights": [float_frac(w) for w in e["weights"]]} for e in g]
                run = {"init": {"ch": evs(groups[0]), "state": st(states[0])}, "iters": []}
                for n in range(N):
                    run["iters"].append({"guard": guards[n], "ch": evs(groups[n + 1]), "state": st(states[n + 1])})
                runs.append(run)
            if forced is not None:
                continue
            # next prefix: deepest choice point with an unexplored option
            choice_events = [e for e in log if e["kind"] != "guard"]
            nxt = None
            for pos in range(len(choice_events) - 1, -1, -1):
                e = choice_events[pos]
                later = [o for o in e["options"] if o > e["idx"]]
                if later:
                    nxt = [c["idx"] for c in choice_events[:pos]] + [later[0]]
                    break
            if nxt is None:
                break
            prefix = nxt
            if len(runs) >= max_runs:
                complete = False
                break
    finally:
        pyrandom.choices, pyrandom.choice, bern_mod.bernoulli = saved
    res["runs"] = runs
    res["complete"] = complete
    return res


def job_accepts(job):
    """does Polar accept these texts?  (parse, normalize, one goal) -- outcome only"""
    from inputparser import Parser
    from program import normalize_program
    from recurrences import RecBuilder
    from cli.common import get_moment
    out = []
    for item in job["texts"]:
        o = {"tid": item["tid"]}
        apply_settings(job.get("settings"))
        signal.alarm(int(item.get("timeout", 60)))
        try:
            program = Parser().parse_string(item["text"])
            o["parsed"] = True
            program = normalize_program(program)
            o["normalized"] = True
            if item.get("goal"):
                rb = RecBuilder(program)
                moment, _ = get_moment(symengine.sympify(item["goal"]), {}, rb,
                                       Namespace(solvability_check=False, at_n=-1, after_loop=False), program)
                o["value_n1"] = eval_closed_form(moment, {}, 1)
        except JobTimeout:
            o["exc"] = "timeout"
        except Exception as ex:
            o.update(exc=type(ex).__name__, msg=str(ex)[:200])
        finally:
            signal.alarm(int(job.get("timeout", 600)))
        out.append(o)
    return {"id": job["id"], "texts": out}


def _install_name_recorder(log):
    import utils.identifiers as ident
    import inputparser, program, recurrences, cli.common  # noqa: F401  (make sure importers are loaded)
    orig = ident.get_unique_var

    def wrapper(name="u"):
        log.append(name)
        return orig(name)
    for mod in list(sys.modules.values()):
        try:
            if getattr(mod, "get_unique_var", None) is orig:
                setattr(mod, "get_unique_var", wrapper)
        except Exception:
            pass
    return orig


def _analyze_simple(text, goals):
    """parse + normalize + closed forms, the way GoalsAction does; returns a result description"""
    from inputparser import Parser
    from program import normalize_program
    from recurrences import RecBuilder
    from cli.common import get_moment
    out = {}
    try:
        program = Parser().parse_string(text)
        program = normalize_program(program)
        out["typedefs"] = {str(v): sorted(frac_or_str(x) for x in t.values)
                           for v, t in program.typedefs.items() if hasattr(t, "values")}
        out["variables"] = sorted(str(v) for v in program.variables)
        rb = RecBuilder(program)
        solvers = {}
        cli_args = Namespace(solvability_check=False, at_n=-1, after_loop=False)
        out["goals"] = {}
        for g in goals:
            try:
                m, ex = get_moment(symengine.sympify(g), solvers, rb, cli_args, program)
                out["goals"][g] = {"closed_form": str(m), "is_exact": bool(ex),
                                   "values": [eval_closed_form(m, {}, n) for n in range(5)]}
            except JobTimeout:
                raise
            except Exception as ex:
                out["goals"][g] = {"exc": type(ex).__name__}
    except JobTimeout:
        raise
    except Exception as ex:
        out["exc"] = type(ex).__name__
        out["msg"] = str(ex)[:200]
    return out


def job_session(job):
    """a history of actions in ONE process; reports the hidden state after every action"""
    import settings
    import utils.identifiers as ident
    from program.assignment import FunctionalAssignment
    apply_settings({})
    names = []
    _install_name_recorder(names)
    optmap = {"tc": "transform_categoricals", "c2a": "cond2arithm", "exact": "exact_func_moments"}
    out = []
    for act in job["actions"]:
        rec = {"a": act["a"]}
        before = len(names)
        if act["a"] == "toggle":
            attr = optmap[act["o"]]
            setattr(settings, attr, not getattr(settings, attr))
        else:
            prog = job["programs"][act["p"]]
            goals = act.get("goals", prog["goals"])
            rec["result"] = _analyze_simple(prog["text"], goals)
        rec["counter"] = ident._count_unique_var
        rec["fresh"] = names[before:]
        rec["flag"] = bool(FunctionalAssignment.exact_func_moments)
        rec["settings"] = {k: bool(getattr(settings, v)) for k, v in optmap.items()}
        out.append(rec)
    return {"id": job["id"], "actions": out}


def job_invariants(job):
    """invariant ideal basis for (a) a program and a list of goals (as the CLI's --invariants does) or
    (b) a tuple of closed forms given directly; basis polynomials are returned term by term"""
    from invariants import InvariantIdeal
    from utils import get_max_case_in_piecewise
    res = {"id": job["id"], "kind": "invariants"}
    apply_settings(job.get("settings"))
    if job.get("burn_names") is not None:
        # an earlier part of the process history consumed this many generated names
        import utils.identifiers as ident
        ident._count_unique_var = int(job["burn_names"])
    if "text" in job:
        from inputparser import parse_program, GoalParser, MOMENT, CUMULANT, CENTRAL
        from inputparser import Parser
        from program import normalize_program
        from recurrences import RecBuilder
        from cli.actions.goals_action import GoalsAction
        try:
            program = normalize_program(Parser().parse_string(job["text"]))
            ga = GoalsAction(Namespace(solvability_check=False, at_n=-1, after_loop=False, invariants=True,
                                       goals=list(job["goals"]), tail_bound_moments=2))
            ga.initialize_program(program, RecBuilder(program))
            closed_forms = {}
            kinds = {}
            for goal_type, goal_data in ga.parse_goals():
                if goal_type == MOMENT:
                    m, _ = ga.handle_moment_goal(goal_data)
                    gid = f"E({goal_data[0]})" if program.is_probabilistic else str(goal_data[0])
                    kinds[gid] = ["mom", str(goal_data[0]), 0]
                elif goal_type == CUMULANT:
                    m, _ = ga.handle_cumulant_goal(goal_data)
                    gid = f"k{goal_data[0]}({goal_data[1]})"
                    kinds[gid] = ["cumulant", str(goal_data[1]), int(goal_data[0])]
                elif goal_type == CENTRAL:
                    m, _ = ga.handle_central_moment_goal(goal_data)
                    gid = f"c{goal_data[0]}({goal_data[1]})"
                    kinds[gid] = ["central", str(goal_data[1]), int(goal_data[0])]
                else:
                    continue
                closed_forms[gid] = m
            res["is_probabilistic"] = bool(program.is_probabilistic)
        except JobTimeout:
            raise
        except Exception as ex:
            res.update(stage="analysis", exc=type(ex).__name__, msg=str(ex)[:300])
            return res
    else:
        closed_forms = {k: sympy.sympify(v, locals={"n": sympy.Symbol("n", integer=True)}) for k, v in job["closed_forms"].items()}
        kinds = {}
    res["goal_ids"] = list(closed_forms)
    res["kinds"] = kinds
    res["closed_forms"] = {k: str(v)[:1000] for k, v in closed_forms.items()}
    res["K"] = max([get_max_case_in_piecewise(v) for v in closed_forms.values()] + [-1])
    N = job.get("N", 8)
    point = job.get("point") or {}
    res["values"] = {k: [eval_closed_form(v, point, n) for n in range(N + 1)] for k, v in closed_forms.items()}
    for pre in job.get("pre", []):
        # earlier invariant computations of the same process (their results are not used)
        try:
            InvariantIdeal({k: sympy.sympify(v, locals={"n": sympy.Symbol("n", integer=True)}) for k, v in pre.items()}).compute_basis()
        except JobTimeout:
            raise
        except Exception:
            pass
    try:
        basis = InvariantIdeal(closed_forms).compute_basis()
    except JobTimeout:
        raise
    except Exception as ex:
        res.update(stage="ideal", exc=type(ex).__name__, msg=str(ex)[:300])
        return res
    syms = [sympy.Symbol(g) for g in res["goal_ids"]]
    out = []
    for b in basis:
        try:
            P = sympy.Poly(sympy.expand(b), *syms)
            # symbolic program constants live in the coefficients: the reported element is instantiated at the point
            sub = {sympy.Symbol(k): sympy.Rational(v) for k, v in point.items()}
            out.append({"text": str(b)[:500], "terms": [[frac_str(sympy.sympify(c).xreplace(sub)), [int(e) for e in mono]] for mono, c in P.terms()]})
        except Exception as ex:
            out.append({"text": str(b)[:500], "unsupported": f"{type(ex).__name__}: {ex}"[:200]})
    res["basis"] = out
    return res


def job_dists(job):
    """observations of Polar's distribution classes: moments, support, discreteness, transforms, samples"""
    from program.distribution import distribution_factory
    K = job.get("K", 6)
    out = []
    t = sympy.Symbol("t")
    for item in job["dists"]:
        o = {"did": item["did"]}
        try:
            d = distribution_factory(item["name"], list(item["params"]))
        except Exception as ex:
            o.update(exc=type(ex).__name__, msg=str(ex)[:200])
            out.append(o)
            continue
        rows = []
        for k in range(K + 1):
            row = {}
            signal.alarm(40)
            try:
                row["moment"] = frac_str(sympy.sympify(d.get_moment(k)))
            except JobTimeout:
                row["moment_exc"] = "timeout"
            except Exception as ex:
                row["moment_exc"] = f"{type(ex).__name__}: {str(ex)[:100]}"
            finally:
                signal.alarm(0)
            rows.append(row)
        if item.get("transforms", True):
            for name, fn, fac in (("mgf", d.mgf, 1), ("cf", d.cf, sympy.I)):
                signal.alarm(60)
                try:
                    expr = sympy.sympify(fn(t))
                    ser = sympy.series(expr, t, 0, K + 1).removeO()
                    for k in range(K + 1):
                        c = sympy.simplify(ser.coeff(t, k) * sympy.factorial(k) / fac ** k)
                        rows[k][name] = frac_str(c)
                except JobTimeout:
                    o[name + "_exc"] = "timeout"
                except Exception as ex:
                    o[name + "_exc"] = f"{type(ex).__name__}: {str(ex)[:100]}"
                finally:
                    signal.alarm(0)
        o["rows"] = rows
        try:
            sup = d.get_support()
            lo, hi = [], []
            for s_ in sup:
                a, b = (s_, s_) if not isinstance(s_, tuple) else s_
                a, b = sympy.sympify(a), sympy.sympify(b)
                lo.append("-inf" if a == -sympy.oo else frac_str(a))
                hi.append("inf" if b == sympy.oo else frac_str(b))
            # a reported support is the union of its pieces: its hull must contain the true support
            o["support"] = {"lo": lo, "hi": hi}
        except Exception as ex:
            o["support_exc"] = f"{type(ex).__name__}: {str(ex)[:100]}"
        o["discrete"] = bool(d.is_discrete())
        o["mgf_at"] = []
        for tv in item.get("mgf_points", ["-2", "-1/2", "0", "1/2", "1", "2", "3"]):
            try:
                o["mgf_at"].append([tv, bool(d.mgf_exists_at(sympy.Rational(tv)))])
            except NotImplementedError:
                break
            except Exception as ex:
                o["mgf_at"].append([tv, f"exc:{type(ex).__name__}"])
        samples = []
        try:
            for _ in range(job.get("samples", 60)):
                samples.append(float_frac(d.sample({})))
        except Exception as ex:
            o["sample_exc"] = f"{type(ex).__name__}: {str(ex)[:100]}"
        o["samples"] = samples
        out.append(o)
    return {"id": job["id"], "dists": out}


def job_bayesnet(job):
    """BIF import: acceptance, parsed CPTs, generated loop, query answers (as printed by the CLI action)"""
    import contextlib
    import io
    import re as _re
    import tempfile
    from bayesnet.parser import BifParser
    from bayesnet.code_generator import CodeGenerator
    from bayesnet.query.sampling_time_query import SamplingTimeQuery
    from bayesnet.query.exact_inference_query import ExactInferenceQuery
    from inputparser import Parser, GoalParser
    from program import normalize_program
    from recurrences import RecBuilder
    from cli.common import get_moment
    out = []
    for item in job["nets"]:
        o = {"nid": item["nid"]}
        signal.alarm(int(item.get("timeout", 120)))
        try:
            with tempfile.NamedTemporaryFile("w", suffix=".bif", delete=False) as f:
                f.write(item["bif"])
                path = f.name
            try:
                try:
                    network = BifParser().parse_file(path)
                except Exception as ex:
                    o.update(accepted=False, exc=type(ex).__name__, msg=str(ex)[:200])
                    out.append(o)
                    continue
            finally:
                os.unlink(path)
            o["accepted"] = True
            o["var_order"] = list(network.variables.keys())
            cpts = {}
            import itertools as _it
            for name, v in network.variables.items():
                rows = []
                for comb in _it.product(*[p.domain for p in v.parents]):
                    rows.append([float_frac(x) for x in v.cpt[comb]])
                cpts[name] = {"parents": [p.name for p in v.parents], "domain": list(v.domain), "rows": rows}
            o["cpts"] = cpts
            gen_ = CodeGenerator(network, None)
            code = gen_.generate_code()
            o["code"] = code
            o["names"] = dict(gen_.polar_variable_names)
            try:
                program = Parser().parse_string(code)
                vs, _ = program_symbols(program)
                o["program"] = Exporter(vs, {}).program(program)
            except Exception as ex:
                o["program_exc"] = f"{type(ex).__name__}: {str(ex)[:200]}"
            o["queries"] = []
            for qy in item.get("queries", []):
                qo = dict(qy)
                try:
                    if qy["kind"] == "inference":
                        query = ExactInferenceQuery(qy["text"], network)
                    else:
                        query = SamplingTimeQuery(qy["text"], network)
                    cg = CodeGenerator(network, query)
                    qcode = cg.generate_code()
                    program = normalize_program(Parser().parse_string(qcode))
                    rb = RecBuilder(program)
                    goals = query.generate_query(network, cg.polar_variable_names)
                    results = []
                    for goal_type, goal_data in [GoalParser.parse(g) for g in goals]:
                        r, _ = get_moment(goal_data[0], {}, rb, Namespace(solvability_check=False, at_n=-1, after_loop=False), program)
                        results.append(r)
                    buf = io.StringIO()
                    with contextlib.redirect_stdout(buf):
                        query.generate_result(results)
                    text = buf.getvalue()
                    qo["printed"] = text[:300]
                    head = text.split(" ≈")[0]
                    val = head.rsplit(" = ", 1)[1] if qy["kind"] == "inference" else head.rsplit(" is ", 1)[1]
                    qo["value"] = classify_value(sympy.sympify(val))
                except JobTimeout:
                    qo["exc"] = "timeout"
                except Exception as ex:
                    qo["exc"] = f"{type(ex).__name__}: {str(ex)[:200]}"
                o["queries"].append(qo)
        except JobTimeout:
            o["exc"] = "timeout"
        finally:
            signal.alarm(int(job.get("timeout", 900)))
        out.append(o)
    return {"id": job["id"], "nets": out}


def job_funcmoment(job):
    """values Polar uses for E[X^a sin^b X cos^c X], E[X^a exp(cX)], and Sin/Cos/Exp of constants"""
    from program.distribution import distribution_factory
    from program.assignment import FunctionalAssignment
    out = []
    for item in job["items"]:
        o = {"fid": item["fid"], "claims": []}
        try:
            d = distribution_factory(item["name"], list(item["params"])) if item.get("name") else None
        except Exception as ex:
            o.update(exc=type(ex).__name__)
            out.append(o)
            continue
        for exact in (False, True):
            FunctionalAssignment.exact_func_moments = exact
            for (a, b, c, kind) in item["exponents"]:
                rec = {"a": a, "b": b, "c": c, "kind": kind, "exact": exact}
                signal.alarm(40)
                try:
                    if d is not None:
                        powers = {}
                        if a:
                            powers["Id"] = a
                        if kind == "trig":
                            if b:
                                powers["Sin"] = b
                            if c:
                                powers["Cos"] = c
                        else:
                            powers["Exp"] = c
                        m = FunctionalAssignment.get_func_moment(d, powers)
                    else:
                        fa = FunctionalAssignment("v", item["func"], item["const"])
                        m = fa.get_const_moment(a)
                    m = sympy.sympify(m)
                    if m.is_Rational:
                        rec["value"] = f"{int(m.p)}/{int(m.q)}"
                        rec["rational"] = True
                    else:
                        num = sympy.N(m, 45)
                        re_, im_ = num.as_real_imag()
                        rec["value"] = str(sympy.Rational(str(re_)))
                        rec["im"] = str(im_)
                        rec["rational"] = False
                except JobTimeout:
                    rec["exc"] = "timeout"
                except Exception as ex:
                    rec["exc"] = type(ex).__name__
                    rec["msg"] = str(ex)[:120]
                finally:
                    signal.alarm(0)
                o["claims"].append(rec)
        FunctionalAssignment.exact_func_moments = False
        out.append(o)
    return {"id": job["id"], "items": out}


def job_synth(job):
    """unsolvable-loop analysis: synthesized invariants (Q, f) and synthesized solvable loops"""
    from inputparser import Parser
    from program import normalize_program
    from unsolvable_analysis import UnsolvInvSynthesizer, SolvLoopSynthesizer
    res = {"id": job["id"], "kind": "synth"}
    apply_settings(job.get("settings"))
    for pre in job.get("pre", []):
        # earlier analyses in the same process (history): their results are not reported
        try:
            from inputparser import Parser as _P
            from program import normalize_program as _np
            from unsolvable_analysis import UnsolvInvSynthesizer as _U
            _prog = _np(_P().parse_string(pre["text"]))
            _c = [v for v in _prog.defective_variables if v in _prog.original_variables]
            if _c:
                _U.synth_inv(_c, pre.get("deg", 2), _prog)
        except JobTimeout:
            raise
        except Exception:
            pass
    points = job.get("points") or [{}]
    N = job.get("N", 4)
    deg = job.get("deg", 2)
    try:
        parsed = Parser().parse_string(job["text"])
        variables, params = program_symbols(parsed)
        symbols = sorted(params) + sorted(v + "0" for v in variables - initialised_vars(parsed))
        full = []
        for i, pt in enumerate(points):
            pt = dict(pt)
            for j, sname in enumerate(symbols):
                pt.setdefault(sname, f"{1 + (i + j) % 3}/{1 + (i % 2)}")
            full.append(pt)
        points = full
        res["points_used"] = points
        res["parsed"] = [Exporter(variables, pt).program(parsed) for pt in points]
        program = normalize_program(parsed)
    except JobTimeout:
        raise
    except Exception as ex:
        res.update(stage="normalize", exc=type(ex).__name__, msg=str(ex)[:300])
        return res
    res["defective"] = sorted(str(v) for v in program.defective_variables)
    res["effective"] = sorted(str(v) for v in program.effective_variables)
    if job.get("candidates"):
        cands = [symengine.sympify(v) for v in job["candidates"]]
    else:
        cands = [v for v in program.defective_variables if v in program.original_variables]
    res["candidates"] = sorted(str(v) for v in cands)
    if not cands:
        res["stage"] = "all-effective"
        return res
    nvars = sorted(str(v) for v in program.variables)

    def export_solution(sol, tag):
        inv, cf = sympy.sympify(sol[0]), sympy.sympify(sol[1])
        extra = sorted(str(x) for x in (inv.free_symbols | cf.free_symbols)
                       if str(x) not in nvars and str(x) != "n" and all(str(x) not in pt for pt in points))
        out = {"tag": tag, "invariant": str(inv)[:400], "closed_form": str(cf)[:600], "free_coefficients": extra, "per_point": []}
        for pi, pt in enumerate(points):
            pt2 = dict(pt)
            for j, e in enumerate(extra):
                pt2[e] = str(1 + j + pi)
            try:
                poly = Exporter(nvars, pt2).poly(inv)
                vals = [eval_closed_form(cf, pt2, n) for n in range(N + 1)]
                out["per_point"].append({"poly": poly, "values": vals})
            except Unsupported as ex:
                out["per_point"].append({"unsupported": str(ex)})
        return out
    sols = []
    for tag, kw in (("k=1", {"k": 1}), ("general", {})):
        try:
            ss = UnsolvInvSynthesizer.synth_inv(cands, deg, program, **kw)
            for sol in (ss or []):
                sols.append(export_solution(sol, tag))
        except JobTimeout:
            raise
        except Exception as ex:
            sols.append({"tag": tag, "exc": type(ex).__name__, "msg": str(ex)[:200]})
    res["solutions"] = sols
    # synthesized solvable loops
    loops = []
    try:
        invariants, progs = SolvLoopSynthesizer.synth_loop(cands, deg, program)
        for inv, sp in zip(invariants or [], progs):
            try:
                vs, _ = program_symbols(sp)
                exported = []
                for pt in points:
                    extra = sorted(str(x) for x in sympy.sympify(inv[0]).free_symbols if str(x) not in nvars and str(x) not in pt)
                    pt2 = dict(pt)
                    for j, e in enumerate(extra):
                        pt2[e] = str(1 + j)
                    fs = set()
                    for a in list(sp.initial) + list(sp.loop_body):
                        fs |= {str(x) for x in a.get_free_symbols()}
                    for e in sorted(fs - set(map(str, vs)) - set(pt2)):
                        pt2[e] = "1"
                    exported.append({"prog": Exporter(vs, pt2).program(sp), "inv_poly": Exporter(nvars, pt2).poly(sympy.sympify(inv[0]))})
                loops.append({"invariant": str(inv[0])[:300], "vars": sorted(map(str, vs)), "per_point": exported,
                              "text": str(sp)[:1500]})
            except Unsupported as ex:
                loops.append({"unsupported": str(ex)})
    except JobTimeout:
        raise
    except Exception as ex:
        loops.append({"exc": type(ex).__name__, "msg": str(ex)[:200]})
    res["loops"] = loops
    return res


def job_expansions(job):
    """Gram-Charlier densities and Cornish-Fisher quantile polynomials for several cumulant vectors, one after the
    other in this process (as a long-lived process would compute them)"""
    from expansions import GramCharlierExpansion, CornishFisherExpansion
    out = []
    x, z = sympy.Symbol("x"), sympy.Symbol("z")
    for item in job["vectors"]:
        o = {"vid": item["vid"]}
        cum = {i + 1: sympy.Rational(c) for i, c in enumerate(item["cumulants"])}
        signal.alarm(60)
        try:
            dens = GramCharlierExpansion(dict(cum))()
            mu, sigma = cum[1], sympy.sqrt(cum[2])
            phi = sympy.stats.density(sympy.stats.Normal("_", mu, sigma))(x)
            P = sympy.Poly(sympy.simplify(dens / phi), x)
            o["gc"] = [[frac_str(c), int(m[0])] for m, c in P.terms()]
        except JobTimeout:
            o["gc_exc"] = "timeout"
        except Exception as ex:
            o["gc_exc"] = f"{type(ex).__name__}: {str(ex)[:150]}"
        finally:
            signal.alarm(0)
        signal.alarm(60)
        try:
            cf = CornishFisherExpansion(dict(cum))
            w = sympy.sympify(cf.z + sum([cf.xi(k) for k in range(1, len(cum) - 1)]))
            P = sympy.Poly(sympy.expand(w), z)
            o["cf"] = [[frac_str(c), int(m[0])] for m, c in P.terms()]
            full = sympy.sympify(cf())
            o["cf_full"] = str(full)[:300]
        except JobTimeout:
            o["cf_exc"] = "timeout"
        except Exception as ex:
            o["cf_exc"] = f"{type(ex).__name__}: {str(ex)[:150]}"
        finally:
            signal.alarm(0)
        out.append(o)
    return {"id": job["id"], "vectors": out}


def job_worklist(job):
    """pop order of RecBuilder.get_recurrences' worklist and the dependency relation of the resulting system"""
    from inputparser import Parser
    from program import normalize_program
    from recurrences import RecBuilder
    from utils import get_monoms
    out = []
    for item in job["items"]:
        o = {"wid": item["wid"]}
        signal.alarm(int(item.get("timeout", 100)))
        try:
            program = normalize_program(Parser().parse_string(item["text"]))
            rb = RecBuilder(program)
            order = []
            orig = RecBuilder.get_recurrence.__wrapped__

            def logged(self, monomial, _orig=orig):
                order.append(str(monomial))
                return _orig(self, monomial)
            RecBuilder.get_recurrence = logged
            try:
                recs = rb.get_recurrences.__wrapped__(rb, symengine.sympify(item["goal"]))
            finally:
                from functools import lru_cache
                RecBuilder.get_recurrence = lru_cache(maxsize=None)(orig)
            deps = {}
            for m, rhs in recs.recurrence_dict.items():
                ms = get_monoms(symengine.sympify(str(rhs)).expand(), constant_symbols=program.symbols)
                deps[str(symengine.sympify(str(m)))] = sorted({str(mm) for _, mm in ms})
            o.update(order=order, deps=deps, start=str(symengine.sympify(item["goal"])))
        except JobTimeout:
            o["exc"] = "timeout"
        except Exception as ex:
            o.update(exc=type(ex).__name__, msg=str(ex)[:200])
        finally:
            signal.alarm(0)
        out.append(o)
    return {"id": job["id"], "items": out}


def job_typer(job):
    """records FiniteFixedPointTyper as it runs inside normalize_program: the state after _initialize_state, the
    support expressions of every loop-body assignment and the state after every _progress call (numeric programs)"""
    from inputparser import Parser
    from program import normalize_program
    from type_inference import FiniteFixedPointTyper as FT
    apply_settings(job.get("settings"))
    res = {"id": job["id"], "kind": "typer"}
    try:
        program = Parser().parse_string(job["text"])
    except Exception as ex:
        res.update(stage="parse", exc=type(ex).__name__, msg=str(ex)[:200])
        return res
    rec = {}
    orig_init, orig_prog, orig_infer = FT._initialize_state, FT._progress, FT.infer_types

    def snap(self):
        out = {}
        for v, stt in self.state.items():
            out[str(v)] = {"vals": [frac_or_str(x) for x in stt.values], "failed": bool(stt.has_failed),
                           "locked": bool(stt.is_locked), "changed": bool(stt.has_changed)}
        return out

    def init_(self):
        orig_init(self)
        rec["init"] = snap(self)
        rec["iterations"] = int(self.iterations)
        rec["maxvals"] = int(self.max_values_before_fail)
        vs, _ = program_symbols(self.program)
        ex = Exporter(sorted(set(vs) | {str(v) for v in self.state}), {})
        body = []
        for a in self.program.loop_body:
            st = {"v": str(a.variable), "exprs": [], "interval": False}
            for e in a.get_support():
                if type(e) is tuple:
                    st["interval"] = True
                else:
                    st["exprs"].append(ex.poly(sympy.sympify(str(e))))
            body.append(st)
        rec["body"] = body
        rec["vars"] = ex.vars
        rec["sweeps"] = []

    def prog_(self):
        orig_prog(self)
        if "sweeps" in rec:
            rec["sweeps"].append(snap(self))
    FT._initialize_state, FT._progress = init_, prog_
    try:
        try:
            program = normalize_program(program)
        except Unsupported as ex:
            res.update(stage="unsupported", msg=str(ex)[:200])
            return res
        except JobTimeout:
            raise
        except Exception as ex:
            res["normalize_exc"] = f"{type(ex).__name__}: {str(ex)[:150]}"
    finally:
        FT._initialize_state, FT._progress = orig_init, orig_prog
    res["typedefs"] = {str(v): sorted(frac_or_str(x) for x in t.values) for v, t in program.typedefs.items() if hasattr(t, "values")}
    res.update(rec)
    return res


def job_parse_many(job):
    """acceptance of many texts by the parser alone (no normalization): list of [accepted, exception class]"""
    from inputparser import Parser
    out = []
    for text in job["texts"]:
        try:
            Parser().parse_string(text)
            out.append([True, ""])
        except JobTimeout:
            raise
        except Exception as ex:
            out.append([False, type(ex).__name__])
    return {"id": job["id"], "kind": "parse_many", "results": out}


def job_cli_files(job):
    """one command line invocation over several benchmark files, as polar.py does it: ONE action object handles the files
    one after the other; the printed output is returned per file"""
    import contextlib
    import io
    import tempfile as _tf
    from cli import ArgumentParser
    from cli.actions import ActionFactory
    paths = []
    for text in job["files"]:
        tf = _tf.NamedTemporaryFile("w", suffix=".prob", delete=False)
        tf.write(text)
        tf.close()
        paths.append(tf.name)
    old_argv = sys.argv
    outs = []
    try:
        sys.argv = ["polar.py"] + paths + list(job["argv"])
        with contextlib.redirect_stdout(io.StringIO()):
            args = ArgumentParser().parse_args()
            action = ActionFactory.create_action(args)
        for pth in args.benchmarks:
            buf = io.StringIO()
            try:
                with contextlib.redirect_stdout(buf):
                    action(pth)
                outs.append({"out": buf.getvalue()})
            except JobTimeout:
                raise
            except (Exception, SystemExit) as ex:
                outs.append({"out": buf.getvalue(), "exc": type(ex).__name__})
    finally:
        sys.argv = old_argv
        for pth in paths:
            os.unlink(pth)
        apply_settings({})
    return {"id": job["id"], "kind": "cli_files", "outputs": outs}


JOBS = {"cli_files": job_cli_files, "parse_many": job_parse_many, "typer": job_typer, "worklist": job_worklist, "expansions": job_expansions, "synth": job_synth, "funcmoment": job_funcmoment, "bayesnet": job_bayesnet, "dists": job_dists, "invariants": job_invariants, "session": job_session, "accepts": job_accepts, "analyze": job_analyze, "linrec": job_linrec, "explattice": job_explattice, "simulate": job_simulate}


def handle(job):
    signal.alarm(int(job.get("timeout", 120)))
    try:
        res = JOBS[job["kind"]](job)
    except JobTimeout:
        res = {"id": job["id"], "stage": "timeout"}
    except Unsupported as ex:
        res = {"id": job["id"], "stage": "unsupported", "msg": str(ex)}
    except Exception as ex:
        res = {"id": job["id"], "stage": "worker", "exc": type(ex).__name__, "msg": str(ex)[:500],
               "tb": traceback.format_exc()[-1500:]}
    finally:
        signal.alarm(0)
    sys.stdout.write("@@RESULT " + json.dumps(res) + "\n")
    sys.stdout.flush()


def main():
    signal.signal(signal.SIGALRM, _alarm)
    try:
        # die with the harness process (a killed check must not leave workers behind)
        import ctypes
        ctypes.CDLL("libc.so.6").prctl(1, signal.SIGKILL)
    except Exception:
        pass
    real_stdout = sys.stdout
    if os.environ.get("POLAR_WORKER_STREAM"):
        # one JSON job per line on stdin
        for line in sys.stdin:
            line = line.strip()
            if line:
                handle(json.loads(line))
    else:
        for job in json.load(sys.stdin):
            handle(job)


if __name__ == "__main__":
    main()
