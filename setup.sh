#!/bin/sh
# offline setup: syntax-check all specifications, run the exact-arithmetic self test and a smoke trace
set -e
cd "$(dirname "$0")/spec"
for f in Exact LoopDist LoopTrace LoopSem LinRec LinRecFamily ExpLattice Dists BayesNet FuncMoment Session Worklist ProgSpace Pipeline Typer LineGrammar ExactTest; do
  java -cp /opt/veriftools/tla/tla2tools.jar:/opt/veriftools/tla/CommunityModules-deps.jar tla2sany.SANY $f.tla > /tmp/sany_$f.log 2>&1 || { cat /tmp/sany_$f.log; exit 1; }
  grep -q "Semantic errors\|Parsing or semantic analysis failed\|\*\*\* Errors" /tmp/sany_$f.log && { cat /tmp/sany_$f.log; exit 1; }
done
M=$(mktemp -d)
java -XX:+UseParallelGC -cp /opt/veriftools/tla/tla2tools.jar:/opt/veriftools/tla/CommunityModules-deps.jar tlc2.TLC -workers 8 -metadir $M -noGenerateSpecTE ExactTest.tla > $M/log 2>&1 || { tail -30 $M/log; rm -rf $M; exit 1; }
grep -q "No error has been found" $M/log || { tail -30 $M/log; rm -rf $M; exit 1; }
echo '{"mode":"model","traces":[]}' > $M/b.json
BATCH_FILE=$M/b.json OUT_DIR=$M java -cp /opt/veriftools/tla/tla2tools.jar:/opt/veriftools/tla/CommunityModules-deps.jar tlc2.TLC -workers 4 -metadir $M/pl -noGenerateSpecTE -config Pipeline.cfg Pipeline.tla > $M/log2 2>&1 || { tail -30 $M/log2; rm -rf $M; exit 1; }
grep -q "No error has been found" $M/log2 || { tail -30 $M/log2; rm -rf $M; exit 1; }
rm -rf $M
cd ..
/venv/bin/python tests/smoke_looptrace.py > /tmp/smoke.log 2>&1 || { cat /tmp/smoke.log; exit 1; }
mkdir -p evidence
echo "setup ok"
